"""C01 - expression algebra preserves bit-vector meaning.

Tree specs over fresh registers/constants (widths 1..128) are built through the
operator API and judged against an integer reference by two routes:
 E1: mapper with every leaf bound, m(e): a constant result must have the
     reference value and width;
 E2: the built expression, e.simplify() and e.simplify(bitslice=True)
     interpreted by an independent walker.
A failing tree is localised to its smallest failing subtree, whose operator /
operand-kind signature is the bucket key.
"""
import sys
import traceback

from vlib import refsem as R
from vlib.runner import Partial, campaign, shard_seed

ID = "C01"
RULE = (
    "expression trees drawn from a recursive grammar (add sub mul and or xor not neg, shifts/ASR by constant and symbolic "
    "amounts incl. >= width, rotations < width, == !=, unsigned compares, slices, compositions, conditionals, zero/sign "
    "extension; ordered compares, widening multiply, division, modulo only with both operands declared signed or unsigned), "
    "widths 1..128, depth <= 5, 3 boundary-biased valuations each, complexity threshold 0 and 8. Non-trivial = depth >= 2, "
    ">= 1 register leaf and >= 1 rewrite trigger (constant operand, shift/rotate, mask constant, nested +/-, repeated "
    "operand, slice of an operation); distinct by tree spec."
)
ASSUMPTIONS = [
    "signed / and % are judged by truncation toward zero (SMT-LIB bvsdiv/bvsrem); divisor 0 is outside the domain",
    "a result that stays symbolic or top makes no claim (inconclusive)",
    "the walker evaluates a sign-dependent node only if both operand sign flags agree",
]
N = {"quick": 2500, "thorough": 40000}  # trees per shard
NSHARDS = 16
ROUTES = ("E1", "E2", "E2s", "E2b", "E2r", "E2rb")  # E2r*: nodes made with the node constructor, then simplified


def shards(tier, seed):
    out = [{"sub": j} for j in range(NSHARDS)]
    out.append({"grid": True})
    return out


def exc_key(x):
    tb = traceback.extract_tb(sys.exc_info()[2])
    fr = [t for t in tb if "/amoco/" in t.filename]
    t = fr[-1] if fr else tb[-1]
    return "exc:%s:%s" % (type(x).__name__, t.name)


def eval_routes(t, envs, cx, routes=ROUTES):
    """returns list of (route, kind, detail) failures and list of inconclusive notes"""
    from amoco.config import conf
    from amoco.cas.mapper import mapper
    from amoco.cas import expressions as E

    fails = []
    inconc = []
    size = R.size_of(t)
    old = conf.Cas.complexity
    conf.Cas.complexity = cx
    try:
        refs = []
        for env in envs:
            try:
                refs.append(R.ref(t, env))
            except R.DomainError:
                refs.append(None)
        if all(r is None for r in refs):
            return fails, ["domain"]
        for route in routes:
            try:
                e = R.build(t, raw=route in ("E2r", "E2rb"))
                if route in ("E2s", "E2r"):
                    e = e.simplify()
                elif route in ("E2b", "E2rb"):
                    e = e.simplify(bitslice=True)
            except Exception as x:
                fails.append((route, exc_key(x), "%s: %r" % (route, x)))
                continue
            if e.size != size:
                fails.append((route, "size", "%s: size %d expected %d (%s)" % (route, e.size, size, e)))
                continue
            for env, rv in zip(envs, refs):
                if rv is None:
                    continue
                try:
                    if route == "E1":
                        m = mapper()
                        m[E.reg("zz_unused", 8)] = E.cst(0, 8)
                        for k, s in R.regs_of(t).items():
                            m[E.reg(k, s)] = E.cst(env[k] & R.M(s), s)
                        v = m(e)
                        if v.size != size:
                            fails.append((route, "size", "E1: result size %d expected %d" % (v.size, size)))
                            break
                        if not v._is_cst:
                            inconc.append("E1-symbolic")
                            continue
                        got = v.v & R.M(v.size)
                    else:
                        try:
                            got = R.walk(e, env)
                        except R.Inconclusive as ic:
                            inconc.append("walk:" + str(ic))
                            continue
                    if got != rv:
                        fails.append((route, "value", "%s: got %#x expected %#x env=%r expr=%s" % (route, got, rv, env, str(e)[:200])))
                        break
                except AssertionError as x:
                    fails.append((route, "malformed", "%s: %s" % (route, x)))
                    break
                except Exception as x:
                    fails.append((route, exc_key(x), "%s: %r env=%r" % (route, x, env)))
                    break
    finally:
        conf.Cas.complexity = old
    return fails, inconc


def localise(t, envs, cx, route):
    """smallest subtree that still fails on this route"""
    for c in R.children(t):
        f, _ = eval_routes(c, envs, cx, (route,))
        if f:
            return localise(c, envs, cx, route)
    return t


def undefined_operands(t, cx):
    """an ==/!= node whose two operands both collapse to an undefined value (top) under the complexity threshold"""
    from amoco.config import conf

    if t[0] != "bin" or t[1] not in ("==", "!="):
        return False
    old = conf.Cas.complexity
    conf.Cas.complexity = cx
    try:
        return all(not R.build(c).simplify()._is_def for c in (t[2], t[3]))
    except Exception:
        return False
    finally:
        conf.Cas.complexity = old


def bucket_of(route, kind, t, cx=None):
    r = "E2" if route.startswith("E2") else "E1"
    if kind == "value" and cx is not None and undefined_operands(t, cx):
        return "%s:value:%s-of-two-undefined" % (r, t[1])
    return "%s:%s:%s" % (r, kind, R.signature(t))


def triggers(t):
    """rewrite triggers present in the tree"""
    n = 0
    seen = set()

    def rec(x):
        nonlocal n
        k = x[0]
        if k == "bin":
            if x[2][0] == "cst" or x[3][0] == "cst":
                n += 1
            if x[1] in R.SHIFTS + R.ROTS:
                n += 1
            if x[1] in "+-" and any(c[0] == "bin" and c[1] in "+-" for c in (x[2], x[3])):
                n += 1
            if x[2] == x[3]:
                n += 1
        if k == "slc" and x[1][0] in ("bin", "un", "sbin"):
            n += 1
        for c in R.children(x):
            rec(c)

    rec(t)
    return n


def run_case(part, t, envs, cx):
    from vlib.isa import time_guard, HarnessTimeout

    try:
        with time_guard(20):
            return _run_case(part, t, envs, cx)
    except HarnessTimeout:
        part.count("inconclusive:harness-timeout")


def _run_case(part, t, envs, cx):
    fails, inconc = eval_routes(t, envs, cx)
    nt = R.depth(t) >= 2 and bool(R.regs_of(t)) and triggers(t) >= 1
    part.case(t, nt, dict(tree=t, env=envs[0], complexity=cx))
    for i in inconc:
        part.count("inconclusive:" + i.split(":")[0])
    part.count("ok" if not fails else "failing_trees")
    seen = set()
    for route, kind, detail in fails:
        m = localise(t, envs, cx, route)
        f2, _ = eval_routes(m, envs, cx, (route,))
        if f2:
            route2, kind2, detail2 = f2[0]
        else:
            m, kind2, detail2 = t, kind, detail
        b = bucket_of(route, kind2, m, cx)
        if b in seen:
            continue
        seen.add(b)
        part.fail(b, dict(tree=m, envs=envs, complexity=cx, route=route), detail2)


def grid(part):
    """dense, finite sweep: every shift/rotate operator x width x boundary amount, register and constant operand"""
    n = 0
    for w in (1, 2, 7, 8, 31, 32, 33, 64, 128):
        for op in ("<<", ">>", ".>>", ">>>", "<<<"):
            amts = sorted({0, 1, w - 1, w, w + 1, 2 * w, R.M(w)} if op in R.SHIFTS else {0, 1, w - 1, w // 2})
            for a in amts:
                if a < 0 or a > R.M(w):
                    continue
                for left in (["reg", "a%d" % w, w], ["cst", (0x8000000000000001A5 & R.M(w)) | (1 << (w - 1)), w]):
                    t = ["bin", op, left, ["cst", a, w]]
                    envs = [{"a%d" % w: R.M(w)}, {"a%d" % w: 1 << (w - 1)}, {"a%d" % w: 0x5A5A5A5A5A5A5A5A5A5A5A5A5A5A5A5A & R.M(w)}]
                    for cx in (0, 8):
                        run_case(part, t, envs, cx)
                        n += 1
    part.exhaustive["shift_rotate_boundary_grid"] = True
    part.count("grid_cases", n)


def run_shard(shard, tier, seed):
    from hypothesis import strategies as st

    assert R.self_test()
    part = Partial()
    if shard.get("grid"):
        grid(part)
        return part

    def body(rnd):
        size = R.gen_width(rnd)
        t = R.gen_tree(rnd, size, rnd.randrange(1, 6))
        regs = R.regs_of(t)
        envs = [R.gen_env(rnd, regs) for _ in range(3)]
        cx = 0 if rnd.random() < 0.6 else 8
        run_case(part, t, envs, cx)

    campaign(st.randoms(use_true_random=False), body, N[tier], shard_seed(seed, shard["sub"]))
    return part


def replay(case):
    t = case["tree"]
    envs = case["envs"]
    routes = ROUTES if not case.get("route") else tuple(r for r in ROUTES if r.startswith(case["route"][:2]))
    fails, _ = eval_routes(t, envs, case["complexity"], routes)
    for route, kind, detail in fails:
        return (bucket_of(route, kind, t, case["complexity"]), detail)
    return None
