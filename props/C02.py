"""C02 - the symbolic block map agrees with step-by-step concrete execution.

Per ISA with semantics: sequences of 1..8 decoded instructions; a concrete start
state sigma (every register of cpu.registers bound, a pre-written arena,
pointer-like registers steered into it).
  route A: M = mapper(instrs) from a symbolic state, then sigma >> M
  route B: s = sigma.use(); for i in instrs: i(s)
For every register (slice-wise) and every arena byte: if both routes give a
constant the constants must be equal; a symbolic leftover makes no claim.
"""
import collections

from vlib import isa as visa
from vlib import refsem as R
from vlib.runner import Partial, campaign, shard_seed

ID = "C02"
RULE = (
    "per ISA module with semantics and mode: sequences of 1..8 instructions decoded from spec-guided byte strings "
    "(sequences whose decode or semantics raise are C17's business: skipped and counted), 2 concrete start states each "
    "(registers boundary-biased or pointing into the arena, arena bytes random), configurations noaliasing x memtrace, "
    "both data endiannesses for ARM. Under noaliasing=True a state in which accesses through different symbolic pointer "
    "expressions of the map overlap is outside the claim (skipped). Non-trivial = >= 2 instructions with a data dependency "
    "(a register written by one and read by a later one) or a memory access; distinct by (isa, instruction bytes, config)."
)
ASSUMPTIONS = [
    "amoco is compared against itself by two routes (metamorphic): the concrete stepwise route is the reference",
    "a location either route leaves symbolic/top makes no claim",
]
NSEQ = {"quick": 260, "thorough": 8000}
BIG = {"amoco.arch.x64.cpu_x64": 6, "amoco.arch.x86.cpu_x86": 6}
# the map/compose machinery is ISA independent: the two flagship ISAs carry most of the budget for it
BOOST = {"amoco.arch.x64.cpu_x64": 6, "amoco.arch.x86.cpu_x86": 6}


def shards(tier, seed):
    out = []
    for n in visa.with_semantics():
        if "wasm" in n or "dwarf" in n:
            continue  # stack machines whose operands are Python ints (see C17): no register/memory state to compare
        k = BIG.get(n, 1)
        out += [{"isa": n, "sub": j, "nsub": k} for j in range(k)]
    out += [{"kind": "dsl", "sub": j} for j in range(4)]
    return out


def base_registers(cpu):
    from amoco.cas import expressions as E

    out = []
    seen = set()
    for r in getattr(cpu, "registers", []):
        if not hasattr(r, "etype"):
            continue
        if r._is_slc:
            r = r.x
        if r._is_cst or r._is_mem or not r._is_reg:
            continue
        if r.ref not in seen and r.size:
            seen.add(r.ref)
            out.append(r)
    return out


def arena_of(cpu):
    return (0x4000, 0x4000) if cpu.PC().size <= 16 else (0x100000, 0x20000)


def gen_state(rnd, regs, arena):
    base, size = arena
    vals = {}
    for k, r in enumerate(regs):
        c = rnd.random()
        if c < 0.45 and r.size >= 16:
            slot = (k * 0x800 + 0x400) % (size - 0x400)
            v = base + slot + 8 * rnd.randrange(0, 32)
        elif c < 0.75:
            s = r.size
            v = [0, 1, R.M(s), 1 << (s - 1), (1 << (s - 1)) - 1, 2, 0x80][rnd.randrange(7)] & R.M(s)
        else:
            v = rnd.getrandbits(r.size)
        vals[r.ref] = v & R.M(r.size)
    memseed = rnd.getrandbits(32)
    return dict(regs=vals, memseed=memseed)


def arena_bytes(seed, n):
    import hashlib

    out = bytearray()
    k = 0
    while len(out) < n:
        out += hashlib.blake2b(("%d/%d" % (seed, k)).encode(), digest_size=64).digest()
        k += 1
    return bytes(out[:n])


def make_sigma(cpu, regs, state, arena):
    from amoco.cas.mapper import mapper
    from amoco.cas import expressions as E

    s = mapper()
    for r in regs:
        s[r] = E.cst(state["regs"][r.ref], r.size)
    s.mmap.write(arena[0], arena_bytes(state["memseed"], arena[1]))
    return s


def decode_seq(I, seqbytes, mode, e):
    ins = []
    a = 0x1000
    for b in seqbytes:
        i = I.decode(b, address=a, guard=5)
        if i is None:
            return None
        ins.append(i)
        a += i.length
    return ins


def sstr(i):
    try:
        return str(i)
    except Exception:  # a formatter crash is C17's business
        return "%s %s" % (i.mnemonic, i.bytes.hex())


def slices(v):
    if v._is_cst:
        return [(0, v.size, v.v)]
    if v._is_cmp:
        return [(lo, hi, p.v if p._is_cst else None) for (lo, hi), p in sorted(v.parts.items())]
    return [(0, v.size, None)]


def cmp_values(a, b):
    """'eq' | 'incon' | ('diff', detail)"""
    if a.size != b.size:
        return ("diff", "sizes %d/%d" % (a.size, b.size))
    res = "incon"
    for (lo, hi, va) in slices(a):
        if va is None:
            continue
        for (l2, h2, vb) in slices(b):
            if vb is None:
                continue
            l, h = max(lo, l2), min(hi, h2)
            if l < h:
                x = (va >> (l - lo)) & R.M(h - l)
                y = (vb >> (l - l2)) & R.M(h - l)
                if x != y:
                    return ("diff", "bits [%d:%d] map route %#x stepwise %#x" % (l, h, x, y))
                res = "eq"
    return res


def flat_mem(mm, base, size):
    """bytearray + mask of bytes that are concrete"""
    out = bytearray(size)
    known = bytearray(size)
    pos = 0
    try:
        parts = mm.read(base, size)
    except MemoryError:
        return out, known
    for p in parts:
        if isinstance(p, bytes):
            out[pos: pos + len(p)] = p
            known[pos: pos + len(p)] = b"\x01" * len(p)
            pos += len(p)
        else:
            n = p.size // 8
            if p._is_cst:
                out[pos: pos + n] = p.v.to_bytes(n, "little")
                known[pos: pos + n] = b"\x01" * n
            pos += n
    return out, known


def pointer_accesses(M, regs_by_name, state):
    """concrete (base-expression string, lo, hi) of every store recorded by the map M and of every
    memory read inside its values; None if some base cannot be evaluated"""
    from amoco.cas import expressions as E

    env = dict(state["regs"])
    acc = []

    def ev(base):
        try:
            return R.walk(base, env)
        except Exception:
            return None

    def add(base, disp, nbytes):
        if base._is_cst:
            return True
        v = ev(base)
        if v is None:
            return False
        acc.append((str(base), v + disp, v + disp + nbytes))
        return True

    ok = True
    for key, z in M.mmap._zones.items():
        if key is None:
            continue
        for o in z._map:
            ok &= add(key, o.vaddr, len(o.data))
    for loc, v in M:
        for x in E.locations_of(v):
            if x._is_mem:
                ok &= add(x.a.base, x.a.disp, x.size // 8)
        if loc._is_ptr:
            ok &= add(loc.base, loc.disp, v.size // 8)
    return acc if ok else None


def overlapping_distinct(acc):
    for i in range(len(acc)):
        for j in range(i + 1, len(acc)):
            if acc[i][0] != acc[j][0] and acc[i][1] < acc[j][2] and acc[j][1] < acc[i][2]:
                return True
    return False


SIGNDEP = ("<", "<=", ">", ">=", "**", "/", "%")


def sign_dependent(e, depth=0):
    """does the expression contain an operator whose result depends on sign flags?"""
    if depth > 80 or e is None or not hasattr(e, "etype"):
        return False
    if e._is_eqn:
        if e.op.symbol in SIGNDEP:
            return True
        return sign_dependent(e.l, depth + 1) or sign_dependent(e.r, depth + 1)
    if e._is_slc:
        return sign_dependent(e.x, depth + 1)
    if e._is_cmp:
        return any(sign_dependent(p, depth + 1) for p in e.parts.values())
    if e._is_tst:
        return sign_dependent(e.tst, depth + 1) or sign_dependent(e.l, depth + 1) or sign_dependent(e.r, depth + 1)
    if e._is_mem:
        return sign_dependent(e.a.base, depth + 1) or any(sign_dependent(v, depth + 1) for _, v in e.mods)
    if e._is_ptr:
        return sign_dependent(e.base, depth + 1)
    return False


def classify(M, r, mn):
    """root-cause class of a mismatch: 'signdep' when the map's expression for the location (or,
    for memory, any value of the map) goes through a sign-dependent operator - see the known
    finding C02-sign-flags - else the mnemonics of the (shrunk) sequence"""
    try:
        if r is not None:
            if sign_dependent(M[r]):
                return "signdep"
        else:
            if any(sign_dependent(v) for _, v in M):
                return "signdep"
    except Exception:
        pass
    return mn


def run_case(I, case):
    """returns ('skip', why) | ('ok', stats) | ('fail', bucket, detail)"""
    from amoco.config import conf
    from amoco.cas.mapper import mapper

    cpu = I.cpu
    mode, e = case["mode"], case["endian"]
    old = (conf.Cas.noaliasing, conf.Cas.memtrace, conf.Cas.complexity)
    conf.Cas.noaliasing, conf.Cas.memtrace, conf.Cas.complexity = case["noalias"], case["memtrace"], 0
    I.set_mode(mode, e)
    if I.is_arm:
        cpu.internals["endianstate"] = 1 if case.get("data_be") else 0
    try:
        try:
            ins = decode_seq(I, [bytes.fromhex(h) for h in case["seq"]], mode, e)
        except (Exception, visa.HarnessTimeout):
            I.reset_decoder()
            return ("skip", "decode-raises")
        if ins is None:
            return ("skip", "undecodable")
        regs = base_registers(cpu)
        arena = arena_of(cpu)
        try:
            with visa.time_guard(20):
                M = mapper(ins)
        except visa.HarnessTimeout:
            return ("skip", "timeout")
        except Exception:
            return ("skip", "semantics-raise")
        if case["noalias"]:
            acc = pointer_accesses(M, regs, case["state"])
            if acc is None or overlapping_distinct(acc):
                return ("skip", "aliasing-state-under-noalias")
        try:
            with visa.time_guard(30):
                A = make_sigma(cpu, regs, case["state"], arena) >> M
        except visa.HarnessTimeout:
            return ("skip", "timeout")
        except Exception as x:
            return ("skip", "compose-raises:%s" % type(x).__name__)
        try:
            with visa.time_guard(30):
                B = make_sigma(cpu, regs, case["state"], arena).use()
                for i in ins:
                    i(B)
        except visa.HarnessTimeout:
            return ("skip", "timeout")
        except Exception:
            return ("skip", "stepwise-raises")
        tag = "%s:%s%s%s" % (I.short, "noalias" if case["noalias"] else "alias", "" if case["memtrace"] else "-notrace",
                             "-be" if (cpu.get_data_endian() == -1 if hasattr(cpu, "get_data_endian") else False) else "")
        mn = "+".join(sorted({str(i.mnemonic) for i in ins}))
        stats = dict(eq=0, incon=0)
        for r in regs:
            try:
                va, vb = A(r), B(r)
            except Exception:
                stats["incon"] += 1
                continue
            c = cmp_values(va, vb)
            if c == "eq":
                stats["eq"] += 1
            elif c == "incon":
                stats["incon"] += 1
            else:
                return ("fail", "reg:%s:%s" % (tag, classify(M, r, mn)), "register %s: %s; instrs=%s; map entry: %s" % (r, c[1], [sstr(i) for i in ins], str(M[r])[:300]))
        ma, ka = flat_mem(A.mmap, *arena)
        mb, kb = flat_mem(B.mmap, *arena)
        for k in range(arena[1]):
            if ka[k] and kb[k] and ma[k] != mb[k]:
                return ("fail", "mem:%s:%s" % (tag, classify(M, None, mn)), "arena byte +%#x: map route %#x stepwise %#x; instrs=%s" % (k, ma[k], mb[k], [sstr(i) for i in ins]))
        stats["mem_known"] = sum(1 for k in range(arena[1]) if ka[k] and kb[k])
        stats["ins"] = ins
        stats["M"] = M
        return ("ok", stats)
    finally:
        conf.Cas.noaliasing, conf.Cas.memtrace, conf.Cas.complexity = old
        I.reset_mode()


_GOOD = {}


def good_instruction(I, b):
    """decodes, and its semantics run alone on a fresh mapper without raising (cached)"""
    from amoco.cas.mapper import mapper

    k = (I.name, b)
    if k in _GOOD:
        return _GOOD[k]
    ok = False
    try:
        i = I.decode(b, address=0x1000, guard=5)
        if i is not None and 0 < i.length <= len(b):
            with visa.time_guard(10):
                mapper([i])
            ok = i.length  # (the consumed length: generated tails are cut off)
    except (Exception, visa.HarnessTimeout):
        I.reset_decoder()
    _GOOD[k] = ok
    return ok


def dependent(ins, M):
    """>= 2 instructions with a register data dependency, or a memory access"""
    from amoco.cas import expressions as E
    from amoco.cas.mapper import mapper

    try:
        if any(z._map for k, z in M.mmap._zones.items()):
            return True
        for loc, v in M:
            if loc._is_ptr or any(x._is_mem for x in E.locations_of(v)):
                return True
        if len(ins) < 2:
            return False
        written = set()
        for i in ins:
            m = mapper([i])
            rd = {str(x) for loc, v in m for x in E.locations_of(v) if x._is_reg}
            if rd & written:
                return True
            written |= {str(loc) for loc, v in m if loc._is_reg and not (loc.etype & E.regtype.PC)}
    except Exception:
        return False
    return False


# ---- ISA independent block programs ------------------------------------------
# The same comparison on "instruction semantics" written in a uniform way (assignments through
# the operator API on map values): exercises the map / expression machinery without the
# ISA-specific Python in between, and adds a third route: a plain integer interpreter.

DREG = ["a", "b", "c", "d"]
PREG = ["p", "q"]
DSL_ARENA = 0x3000


def gen_dsl(rnd, memheavy=False):
    prog = []
    for _ in range(rnd.randrange(2, 9)):
        k = rnd.random()
        if memheavy:
            # store/load dominated programs: repeated stores through the same and the other pointer
            k = 0.3 * k if k < 0.3 else (0.72 + (k - 0.3) * 0.4)
        if k < 0.62:
            op = ["+", "-", "+", "-", "&", "|", "^", "*", "<<", ">>", ".>>"][rnd.randrange(11)]
            dst = DREG[rnd.randrange(4)]
            s1 = DREG[rnd.randrange(4)]
            if rnd.random() < 0.5 or op in ("<<", ">>", ".>>"):
                s2 = ["imm", [1, 4, 8, 0xFF, 0x80000000, rnd.getrandbits(32), rnd.getrandbits(5)][rnd.randrange(7)]]
                if op in ("<<", ">>", ".>>"):
                    s2 = ["imm", rnd.randrange(0, 34)]
            else:
                s2 = ["reg", DREG[rnd.randrange(4)]]
            prog.append(["alu", dst, op, s1, s2])
        elif k < 0.72:
            prog.append(["cmp", DREG[rnd.randrange(4)], ["==", "ltu", "geu"][rnd.randrange(3)], DREG[rnd.randrange(4)], DREG[rnd.randrange(4)]])
        elif k < 0.78:
            # conditional move: dst <- src if cond register == 0 (predicated writes, the same condition may guard several)
            prog.append(["cmov", DREG[rnd.randrange(4)], DREG[rnd.randrange(4)], DREG[rnd.randrange(4)]])
        elif k < 0.9:
            # 32-bit stores only (a narrower store over a wider one is the listed finding C09-narrow-after-wide),
            # at aligned or arbitrary byte offsets, so that stores overlap partially under the same base
            prog.append(["st", PREG[rnd.randrange(2)], rnd.randrange(0, 3) * 4 if rnd.random() < 0.5 else rnd.randrange(0, 9), 32, DREG[rnd.randrange(4)]])
        else:
            prog.append(["ld", PREG[rnd.randrange(2)], rnd.randrange(0, 3) * 4 if rnd.random() < 0.5 else rnd.randrange(0, 9), 32, DREG[rnd.randrange(4)]])
    return prog


def dsl_apply(m, prog):
    """the 'semantics': identical code for the symbolic and the concrete route"""
    from amoco.cas import expressions as E

    R_ = {n: E.reg(n, 32) for n in DREG + PREG}
    for ins in prog:
        if ins[0] == "alu":
            _, dst, op, s1, s2 = ins
            x = m(R_[s1])
            y = E.cst(s2[1], 32) if s2[0] == "imm" else m(R_[s2[1]])
            if op == "+":
                r = x + y
            elif op == "-":
                r = x - y
            elif op == "&":
                r = x & y
            elif op == "|":
                r = x | y
            elif op == "^":
                r = x ^ y
            elif op == "*":
                r = x * y
            elif op == "<<":
                r = x << y
            elif op == ".>>":
                r = E.oper(E.OP_ASR, x, y)
            else:
                r = x >> y
            m[R_[dst]] = r
        elif ins[0] == "cmp":
            _, dst, op, s1, s2 = ins
            x, y = m(R_[s1]), m(R_[s2])
            if op == "==":
                c = x == y
            elif op == "ltu":
                c = E.oper(E.OP_LTU, x, y)
            else:
                c = E.oper(E.OP_GEU, x, y)
            m[R_[dst]] = E.tst(c, E.cst(1, 32), E.cst(0, 32))
        elif ins[0] == "cmov":
            _, dst, cnd, src = ins
            m[R_[dst]] = E.tst(m(R_[cnd]) == 0, m(R_[src]), m(R_[dst]))
        elif ins[0] == "st":
            _, pr, off, sz, src = ins
            m[E.mem(R_[pr] + off, sz)] = m(R_[src])[0:sz]
        else:
            _, pr, off, sz, dst = ins
            m[R_[dst]] = m(E.mem(R_[pr] + off, sz))


def dsl_ref(prog, regs, mem):
    M32 = 0xFFFFFFFF
    regs = dict(regs)
    mem = bytearray(mem)
    for ins in prog:
        if ins[0] == "alu":
            _, dst, op, s1, s2 = ins
            x = regs[s1]
            y = s2[1] & M32 if s2[0] == "imm" else regs[s2[1]]
            regs[dst] = R.binop(op, x, y, 32) if op not in ("<<", ">>") else R.binop(op, x, y, 32)
        elif ins[0] == "cmp":
            _, dst, op, s1, s2 = ins
            x, y = regs[s1], regs[s2]
            regs[dst] = int(x == y) if op == "==" else (int(x < y) if op == "ltu" else int(x >= y))
        elif ins[0] == "cmov":
            _, dst, cnd, src = ins
            if regs[cnd] == 0:
                regs[dst] = regs[src]
        elif ins[0] == "st":
            _, pr, off, sz, src = ins
            a = regs[pr] + off - DSL_ARENA
            mem[a: a + sz // 8] = (regs[src] & R.M(sz)).to_bytes(sz // 8, "little")
        else:
            _, pr, off, sz, dst = ins
            a = regs[pr] + off - DSL_ARENA
            regs[dst] = int.from_bytes(mem[a: a + sz // 8], "little")
    return regs, bytes(mem)


def dsl_case(case):
    """returns None | (bucket, detail)"""
    from amoco.config import conf
    from amoco.cas.mapper import mapper
    from amoco.cas import expressions as E

    prog, regs, memb, noalias = case["prog"], case["regs"], bytes.fromhex(case["mem"]), case["noalias"]
    if noalias and regs["p"] != regs["q"] and abs(regs["p"] - regs["q"]) < 16:
        return None
    if noalias and regs["p"] == regs["q"] and any(i[0] in ("st", "ld") and i[1] == "q" for i in prog) and any(i[0] in ("st", "ld") and i[1] == "p" for i in prog):
        return None
    old = (conf.Cas.noaliasing, conf.Cas.memtrace, conf.Cas.complexity)
    conf.Cas.noaliasing, conf.Cas.memtrace, conf.Cas.complexity = noalias, True, 0
    try:
        def sigma():
            s_ = mapper()
            for k, v in regs.items():
                s_[E.reg(k, 32)] = E.cst(v, 32)
            s_.mmap.write(DSL_ARENA, memb)
            return s_

        try:
            M = mapper()
            M[E.reg("zz", 8)] = E.cst(0, 8)
            dsl_apply(M, prog)
            A = sigma() >> M
            B = sigma().use()
            dsl_apply(B, prog)
        except Exception as x:
            from vlib.runner import bucket_of_exception

            return (bucket_of_exception("dsl:raise", x), repr(x))
        rr, rm = dsl_ref(prog, regs, memb)
        tag = "noalias" if noalias else "alias"
        for n in DREG:
            va, vb = A(E.reg(n, 32)), B(E.reg(n, 32))
            for route, v in (("map", va), ("step", vb)):
                if v._is_cst and v.v != rr[n]:
                    return ("dsl:reg:%s:%s" % (route, tag), "register %s: %s route %#x, reference %#x; program %r; block map:\n%s" % (n, route, v.v, rr[n], prog, str(M)[:500]))
        ma, ka = flat_mem(A.mmap, DSL_ARENA, len(memb))
        mb, kb = flat_mem(B.mmap, DSL_ARENA, len(memb))
        for k in range(len(memb)):
            for route, mm_, kk in (("map", ma, ka), ("step", mb, kb)):
                if kk[k] and mm_[k] != rm[k]:
                    return ("dsl:mem:%s:%s" % (route, tag), "byte +%#x: %s route %#x, reference %#x; program %r" % (k, route, mm_[k], rm[k], prog))
        return None
    finally:
        conf.Cas.noaliasing, conf.Cas.memtrace, conf.Cas.complexity = old


def run_dsl(shard, tier, seed, part):
    from hypothesis import strategies as st

    def body(rnd):
        prog = gen_dsl(rnd, memheavy=shard["sub"] >= 2)
        base = DSL_ARENA + 0x40
        pq = [(base, base + 0x40), (base, base), (base, base + 4), (base + 8, base)][rnd.randrange(4)]
        regs = {n: [0, 1, 0xFFFFFFFF, 0x80000000, rnd.getrandbits(32)][rnd.randrange(5)] for n in DREG}
        regs["p"], regs["q"] = pq
        case = dict(kind="dsl", prog=prog, regs=regs, mem=bytes(rnd.getrandbits(8) for _ in range(0x100)).hex(), noalias=rnd.random() < 0.5)
        r = dsl_case(case)
        dep = any(i[0] == "alu" and any(j[0] == "alu" and j[1] in (i[3], i[4][1]) for j in prog[:k]) for k, i in enumerate(prog))
        part.case(case["prog"] + [case["noalias"], pq], dep or any(i[0] in ("st", "ld") for i in prog), dict(prog=prog, noalias=case["noalias"]))
        if r is not None:
            from vlib.shrink import ddmin_list

            def fl(p_):
                x = dsl_case(dict(case, prog=p_))
                return x is not None and x[0] == r[0]

            small = dict(case, prog=ddmin_list(prog, fl, 40))
            r2 = dsl_case(small) or r
            part.fail(r2[0], small, r2[1])

    campaign(st.randoms(use_true_random=False), body, NDSL[tier], shard_seed(seed, "dsl", shard["sub"]))


NDSL = {"quick": 1500, "thorough": 60000}


def run_shard(shard, tier, seed):
    from hypothesis import strategies as st

    part = Partial()
    if shard.get("kind") == "dsl":
        run_dsl(shard, tier, seed, part)
        return part
    I = visa.load(shard["isa"])
    cpu = I.cpu
    regs = base_registers(cpu)
    arena = arena_of(cpu)
    modes = [(m, e) for (m, e) in I.modes() if e == 1 or not I.is_arm]  # fetch endianness is C04's business
    for (mode, e) in modes:
        n = NSEQ[tier] * BOOST.get(I.name, 1) // (len(modes) * shard.get("nsub", 1)) + 1

        def body(rnd, mode=mode, e=e):
            k = rnd.randrange(1, 9) if rnd.random() < 0.7 else rnd.randrange(1, 4)
            seq = []
            I.set_mode(mode, e)
            for _ in range(k):
                # draw until an encoding decodes and executes alone (construction, not filtering of whole sequences)
                for attempt in range(12):
                    b = I.gen_instr_bytes(rnd, mode, e) if rnd.random() < 0.75 else I.gen_bytes(rnd, mode, e, tail=False)
                    g = good_instruction(I, b)
                    if g:
                        seq.append(b[:g].hex())
                        break
            I.reset_mode()
            if not seq:
                part.count("skip:no-executable-instruction")
                return
            cfg = rnd.randrange(8)
            noalias = cfg in (0, 1, 2, 6)
            memtrace = cfg != 6 and cfg != 7
            data_be = I.is_arm and rnd.random() < 0.3
            for _ in range(2):
                state = gen_state(rnd, regs, arena)
                case = dict(isa=I.name, mode=mode, endian=e, seq=seq, noalias=noalias, memtrace=memtrace, data_be=data_be, state=state)
                r = run_case(I, case)
                if r[0] == "skip":
                    part.count("skip:" + r[1])
                    if r[1] in ("undecodable", "decode-raises", "semantics-raise"):
                        break
                    continue
                if r[0] == "ok":
                    st_ = r[1]
                    nt = dependent(st_["ins"], st_["M"])
                    part.case(dict(isa=I.name, seq=seq, cfg=[noalias, memtrace, data_be], st=state["memseed"]), nt,
                              dict(isa=I.short, instrs=[sstr(i) for i in st_["ins"]], noalias=noalias, memtrace=memtrace))
                    part.count("registers_equal", st_["eq"])
                    part.count("registers_inconclusive", st_["incon"])
                    part.count("ok")
                else:
                    part.case(dict(isa=I.name, seq=seq, cfg=[noalias, memtrace, data_be], st=state["memseed"]), True)
                    small = shrink(case, r[1], I)
                    r2 = run_case(I, small)
                    if r2[0] != "fail":
                        small, r2 = case, r
                    part.fail(r2[1], small, r2[2])
                    part.count("failing")

        campaign(st.randoms(use_true_random=False), body, n, shard_seed(seed, I.name, mode, e, shard.get("sub", 0)))
    return part


_ISA = {}


def replay(case):
    if case.get("kind") == "dsl":
        return dsl_case(case)
    I = _ISA.get(case["isa"]) or _ISA.setdefault(case["isa"], visa.load(case["isa"]))
    r = run_case(I, case)
    if r[0] == "fail":
        return (r[1], r[2])
    return None


def shrink(case, bucket, I=None):
    from vlib.shrink import ddmin_list

    if case.get("kind") == "dsl":
        return case

    I = I or _ISA.get(case["isa"]) or _ISA.setdefault(case["isa"], visa.load(case["isa"]))
    kind = bucket.split(":")[0]

    def fails(seq):
        r = run_case(I, dict(case, seq=seq))
        return r[0] == "fail" and r[1].split(":")[0] == kind

    if len(case["seq"]) <= 1 or not fails(case["seq"]):
        return case
    return dict(case, seq=ddmin_list(case["seq"], fails, 40))
