"""C03 - instruction specifications mean what the format language says.

(a) all shipped specs: fix/mask/size/prefix/suffix vs the independent interpreter (exhaustive)
(b) per shipped spec: generated matching / non-matching words, tails, both fetch
    endiannesses: acceptance and the keyword arguments / attributes delivered to a
    recording hook on a private copy of the spec; rollback on rejection by the hook
(c) synthetic format strings from a grammar
(d) the /r and /digit ModRM macros of ispec_ia32 (x86 and x64 copies)
"""
import types

from vlib import isa as visa
from vlib import fmtlang
from vlib.runner import Partial, campaign, shard_seed

ID = "C03"
RULE = (
    "(a) every shipped spec, exhaustive; (b) for every shipped spec k words: fixed bits set and free bits drawn, or one bit "
    "inside the mask flipped, 0-6 tail bytes, fetched little- and big-endian; (c) synthetic formats from a grammar "
    "(LEN 8..64 or *, both directions, bits, {hh}, int/attr/Bits/string fields, '=' overlaps, (*) tail, prefix mark). "
    "Non-trivial = the format has >= 2 field directives or an overlap/variable field, and the word has >= 1 free bit set; "
    "distinct by (format, word, tail, endian)."
)
ASSUMPTIONS = [
    "the ispec class docstring is the specification of the format language; '=sym(n)' is read as 'the n bits written immediately before it'",
    "(*) is generated only as the most significant directive, the only position the documentation gives it a meaning",
]
WORDS = {"quick": 4, "thorough": 120}
NSYN = {"quick": 2500, "thorough": 150000}


def shards(tier, seed):
    out = [{"kind": "shipped", "isa": n} for n in visa.all_names()]
    k = 8 if tier == "quick" else 16
    out += [{"kind": "synthetic", "sub": j, "nsub": k} for j in range(k)]
    out.append({"kind": "modrm"})
    return out


def clone(s):
    from amoco.arch.core import ispec

    c = ispec.__new__(ispec)
    for k in ispec.__slots__:
        try:
            setattr(c, k, getattr(s, k))
        except AttributeError:
            pass
    c.fargs = dict(s.fargs)
    c.iattr = dict(s.iattr)
    c.precond = None
    return c


def norm(v):
    from crysp.bits import Bits

    if isinstance(v, Bits):
        return ("bits", v.ival, v.size)
    if isinstance(v, str):
        return ("str", v)
    if isinstance(v, int):
        return ("int", v)
    return ("other", repr(v))


def try_decode(s, data, e, hookmode="record", pending=None):
    """run decode of a private clone; returns dict(outcome=, kw=, attrs=, bytes=)"""
    from amoco.arch.core import instruction, DecodeError, InstructionError

    c = clone(s)
    got = {}

    def rec(obj, **kw):
        got["kw"] = dict(kw)
        got["attrs"] = {k: getattr(obj, k, None) for k in c.iattr}
        got["bytes"] = bytes(obj.bytes)
        if hookmode == "reject":
            raise InstructionError(obj)

    c.hook = rec
    try:
        i = c.decode(data, e, i=pending, iclass=instruction)
        return dict(outcome="accept", i=i, **got)
    except DecodeError:
        return dict(outcome="DecodeError", **got)
    except InstructionError:
        return dict(outcome="InstructionError", **got)


def check_word(s, sp, v, tail, e, label):
    """returns list of (kind, detail)"""
    out = []
    size = sp.size
    nb = size // 8
    word = v.to_bytes(nb, "little")[::e]
    data = word + tail
    match = (v & sp.mask) == sp.fix
    r = try_decode(s, data, e)
    if match and r["outcome"] != "accept":
        return [("rejects-matching", "%s word=%x tail=%s e=%d -> %s" % (label, v, tail.hex(), e, r["outcome"]))]
    if not match:
        if r["outcome"] == "accept":
            return [("accepts-nonmatching", "%s word=%x mask=%x fix=%x e=%d" % (label, v, sp.mask, sp.fix, e))]
        return out
    if r["bytes"] != word:
        out.append(("bytes", "%s word=%x e=%d instruction bytes %s != %s" % (label, v, e, r["bytes"].hex(), word.hex())))
    full = v | (int.from_bytes(tail, "little") << size) if sp.variable else v
    fullsize = size + 8 * len(tail) if sp.variable else size
    for name, (opt, lo, hi) in sp.fields.items():
        exp = fmtlang.field_value(sp, name, full, fullsize)
        src = r["attrs"] if "." in opt else r["kw"]
        if name not in src:
            out.append(("field-missing", "%s field %s not delivered" % (label, name)))
            continue
        g = norm(src[name])
        if exp[0] == "int" and "." in opt and "~" in opt:
            exp = ("bits",) + exp[1:]
        if g != exp:
            out.append(("field:%s%s" % (opt or "int", "*" if hi is None else ""), "%s word=%x tail=%s e=%d field %s%s[%s:%s] got %r expected %r" % (label, v, tail.hex(), e, opt, name, lo, hi, g, exp)))
    # constants given to the decorator are passed through unchanged
    for k, val in s.fargs.items():
        if not isinstance(val, types.FunctionType) and k not in sp.fields:
            if r["kw"].get(k, "<missing>") != val:
                out.append(("const-karg", "%s %s=%r delivered %r" % (label, k, val, r["kw"].get(k, "<missing>"))))
    for k, val in s.iattr.items():
        if not isinstance(val, types.FunctionType) and k not in sp.fields:
            if r["attrs"].get(k, "<missing>") != val:
                out.append(("const-attr", "%s %s=%r delivered %r" % (label, k, val, r["attrs"].get(k, "<missing>"))))
    return out


def check_rollback(s, sp, v, e, label):
    from amoco.arch.core import instruction

    nb = sp.size // 8
    word = v.to_bytes(nb, "little")[::e]
    p = instruction(b"\xaa\xbb")
    r = try_decode(s, word, e, hookmode="reject", pending=p)
    out = []
    if r["outcome"] != "InstructionError":
        return [("rollback-outcome", "%s hook rejection surfaced as %s" % (label, r["outcome"]))]
    if p.bytes != b"\xaa\xbb":
        out.append(("rollback-bytes", "%s pending bytes %s after rejection" % (label, p.bytes.hex())))
    left = [k for k in s.iattr if hasattr(p, k) and k not in ("bytes", "type", "spec", "mnemonic", "operands", "misc", "address")]
    if left:
        out.append(("rollback-attrs", "%s attributes %r left on the pending instruction after rejection" % (label, left)))
    return out


def static_check(s, sp, label):
    out = []
    if s.fix.size != sp.size or s.mask.size != sp.size:
        out.append(("size", "%s fix.size=%d expected %d" % (label, s.fix.size, sp.size)))
    if s.fix.ival != sp.fix or s.mask.ival != sp.mask:
        out.append(("fixmask", "%s fix=%x/%x mask=%x/%x" % (label, s.fix.ival, sp.fix, s.mask.ival, sp.mask)))
    if (s.size == 0) != sp.variable or (not sp.variable and s.size != sp.size):
        out.append(("declared-size", "%s size attr %r" % (label, s.size)))
    want = True if sp.prefix else ("xdata" if sp.suffix else False)
    if s.pfx != want:
        out.append(("marks", "%s pfx=%r expected %r" % (label, s.pfx, want)))
    return out


def nontrivial(sp, v):
    nf = len(sp.fields)
    rich = nf >= 2 or any(o == "=" or hi is None for (o, lo, hi) in sp.fields.values())
    free = ((1 << sp.size) - 1) & ~sp.mask
    return rich and (v & free) != 0


def one_spec_case(part, s, sp, rnd, label, tag, case_base, endians):
    size = sp.size
    kind = rnd.random()
    v = (rnd.getrandbits(size) & ~sp.mask) | sp.fix
    if kind < 0.25 and sp.mask:
        bits = [k for k in range(size) if (sp.mask >> k) & 1]
        v ^= 1 << bits[rnd.randrange(len(bits))]
    e = endians[rnd.randrange(len(endians))]
    if sp.variable:
        e = 1
    tail = bytes(rnd.getrandbits(8) for _ in range(rnd.randrange(0, 7)))
    res = check_word(s, sp, v, tail, e, label)
    if kind >= 0.9:
        res += check_rollback(s, sp, (v & ~sp.mask) | sp.fix, e, label)
    case = dict(case_base, word="%x" % v, tail=tail.hex(), endian=e, rollback=kind >= 0.9)
    part.case(case, nontrivial(sp, v), case)
    for k, d in res:
        part.fail("%s:%s" % (tag, k), case, d)


def run_shipped(shard, tier, seed, part):
    from hypothesis import strategies as st

    I = visa.load(shard["isa"])
    for mode, S in enumerate(I.specs):
        sps = []
        for idx, s in enumerate(S):
            label = "%s[%s]" % (I.short, s.format)
            try:
                sp = fmtlang.interp(s.format)
            except Exception as x:
                part.fail("shipped:%s:unparsable" % I.short, dict(kind="shipped", isa=I.name, mode=mode, format=s.format), repr(x))
                sps.append(None)
                continue
            sps.append(sp)
            part.count("shipped_specs")
            for k, d in static_check(s, sp, label):
                part.fail("shipped:%s:%s" % (I.short, k), dict(kind="shipped-static", isa=I.name, mode=mode, format=s.format), d)
        part.exhaustive["shipped_fix_mask_size_marks"] = True

        def body(x, mode=mode, S=S, sps=sps):
            idx, rnd = x
            s, sp = S[idx], sps[idx]
            if sp is None:
                return
            one_spec_case(part, s, sp, rnd, "%s[%s]" % (I.short, s.format), "shipped:" + I.short,
                          dict(kind="shipped", isa=I.name, mode=mode, format=s.format), [1, -1])

        campaign(st.tuples(st.integers(0, len(S) - 1), st.randoms(use_true_random=False)), body, WORDS[tier] * len(S), shard_seed(seed, I.name, mode))


# ---- synthetic formats --------------------------------------------------------


def gen_format(rnd):
    variable = rnd.random() < 0.25
    total = [8, 16, 24, 32, 40, 48, 56, 64][rnd.randrange(8)]
    dirn = ["<", ">", ""][rnd.randrange(3)]
    d = dirn or "<"
    toks = []
    used = 0
    names = 0
    while used < total:
        rem = total - used
        c = rnd.random()
        if c < 0.2 and rem >= 8 and used % 8 == 0:
            toks.append("{%02x}" % rnd.getrandbits(8))
            used += 8
        elif c < 0.5:
            k = rnd.randrange(1, min(rem, 6) + 1)
            sep = "" if rnd.random() < 0.5 else " "
            toks.append(sep.join("01-"[rnd.randrange(3)] for _ in range(k)))
            used += k
        else:
            k = rnd.randrange(1, min(rem, 12) + 1)
            opt = ["", "", ".", "~", "#", ".~"][rnd.randrange(6)] if False else ["", "", ".", "~", "#"][rnd.randrange(5)]
            names += 1
            toks.append("%sf%d%s" % (opt, names, "(%d)" % k if (k > 1 or rnd.random() < 0.3) else ""))
            used += k
            if rnd.random() < 0.25:
                k2 = rnd.randrange(1, min(used, 8) + 1)
                names += 1
                o2 = "="
                toks.append("%sg%d(%d)" % (o2, names, k2))
    if variable:
        names += 1
        t = "~v%d(*)" % names
        if d == ">":
            toks.append(t)
        else:
            toks.insert(0, t)
    mark = ["", "", "+", "&"][rnd.randrange(4)]
    return "%s%s[ %s ]%s" % ("*" if variable else total, dirn, " ".join(toks), mark)


def build_synthetic(fmt, consts=True):
    from amoco.arch.core import ispec

    kw = {}
    if consts:
        kw = dict(mnemonic="SYN", _flag=7)
    return ispec(fmt, **kw)


def run_synthetic(shard, tier, seed, part):
    from hypothesis import strategies as st

    def body(rnd):
        fmt = gen_format(rnd)
        base = dict(kind="synthetic", format=fmt)
        try:
            s = build_synthetic(fmt)
        except Exception as x:
            part.case(base, False)
            part.fail("synthetic:ispec-raises:%s" % type(x).__name__, base, repr(x))
            return
        sp = fmtlang.interp(fmt)
        part.count("synthetic_formats")
        if sp.variable:
            part.count("synthetic_variable")
        if any(o == "=" for (o, lo, hi) in sp.fields.values()):
            part.count("synthetic_overlap")
        for k, d in static_check(s, sp, fmt):
            part.fail("synthetic:%s" % k, base, d)
        for _ in range(3):
            one_spec_case(part, s, sp, rnd, fmt, "synthetic", base, [1, -1])

    campaign(st.randoms(use_true_random=False), body, NSYN[tier] // shard["nsub"], shard_seed(seed, "syn", shard["sub"]))


# ---- ModRM macros -------------------------------------------------------------


def run_modrm(part):
    import importlib

    for modname in ("amoco.arch.x86.utils", "amoco.arch.x64.utils"):
        U = importlib.import_module(modname)
        for macro in ["/r"] + ["/%d" % k for k in range(8)]:
            fmt = "*>[ {f7} %s ]" % macro
            s = U.ispec_ia32(fmt, mnemonic="X")
            for modrm in range(256):
                Mod, REG, RM = modrm >> 6, (modrm >> 3) & 7, modrm & 7
                data = bytes([0xF7, modrm, 0x11, 0x22])
                r = try_decode(s, data, 1)
                want_accept = macro == "/r" or REG == int(macro[1])
                case = dict(kind="modrm", module=modname, macro=macro, modrm=modrm)
                part.case(case, True, case if modrm == 0x5C else None)
                if (r["outcome"] == "accept") != want_accept:
                    part.fail("modrm:acceptance", case, "macro %s modrm=%02x outcome %s" % (macro, modrm, r["outcome"]))
                    continue
                if not want_accept:
                    continue
                kw = r["kw"]
                exp = {"Mod": Mod, "RM": RM}
                if macro == "/r":
                    exp["REG"] = REG
                for k, v in exp.items():
                    if kw.get(k) != v:
                        part.fail("modrm:field", case, "macro %s modrm=%02x %s=%r expected %r" % (macro, modrm, k, kw.get(k), v))
                dd = norm(kw.get("data"))
                if dd != ("bits", 0x2211, 16):
                    part.fail("modrm:data", case, "macro %s data=%r" % (macro, dd))
    part.exhaustive["modrm_macros_all_256_bytes"] = True


def run_shard(shard, tier, seed):
    part = Partial()
    assert fmtlang.self_test()
    if shard["kind"] == "shipped":
        run_shipped(shard, tier, seed, part)
    elif shard["kind"] == "synthetic":
        run_synthetic(shard, tier, seed, part)
    else:
        run_modrm(part)
    return part


def replay(case):
    part = Partial()
    k = case.get("kind")
    if k == "modrm":
        run_modrm(part)
    elif k in ("shipped", "shipped-static"):
        I = visa.load(case["isa"])
        S = [s for s in I.specs[case["mode"]] if s.format == case["format"]]
        for s in S:
            sp = fmtlang.interp(s.format)
            label = "%s[%s]" % (I.short, s.format)
            res = static_check(s, sp, label)
            if k == "shipped":
                res += check_word(s, sp, int(case["word"], 16), bytes.fromhex(case["tail"]), case["endian"], label)
                if case.get("rollback"):
                    res += check_rollback(s, sp, (int(case["word"], 16) & ~sp.mask) | sp.fix, case["endian"], label)
            for kk, d in res:
                return ("shipped:%s:%s" % (I.short, kk), d)
        return None
    elif k == "synthetic":
        fmt = case["format"]
        try:
            s = build_synthetic(fmt)
        except Exception as x:
            return ("synthetic:ispec-raises:%s" % type(x).__name__, repr(x))
        sp = fmtlang.interp(fmt)
        res = static_check(s, sp, fmt)
        if "word" in case:
            res += check_word(s, sp, int(case["word"], 16), bytes.fromhex(case["tail"]), case["endian"], fmt)
            if case.get("rollback"):
                res += check_rollback(s, sp, (int(case["word"], 16) & ~sp.mask) | sp.fix, case["endian"], fmt)
        for kk, d in res:
            return ("synthetic:%s" % kk, d)
        return None
    for b, f in part.failures.items():
        return (b, f["detail"])
    return None
