"""C04 - decoder index is equivalent to a most-constrained-first scan.

(1) structural, exhaustive: routing invariant of every node of every decoder
    tree, leaves are exactly the registered specs;
(2) differential: cpu.disassemble(b) against a flat scan over the spec list in
    registration order stably sorted by popcount(mask), ties compared as a set.
"""
import os
import sys
import collections

from vlib import isa as visa
from vlib.runner import Partial, campaign, shard_seed, h64

ID = "C04"
RULE = (
    "byte strings generated from a drawn shipped spec (fixed bits set, free bits random, fetch-endian byte order, "
    "0-16 tail bytes, x86 prefixes/REX), mixed with random strings, truncations and single bit flips; per ISA/mode/fetch "
    "endianness. Non-trivial = at least 2 specs accept the string, or a prefix spec was consumed, or the string is shorter "
    "than maxlen on a big-endian fetch, or the index routes the string through >= 1 inner node to a non-empty leaf "
    "(so a wrong route or in-leaf order changes the outcome); distinct by (isa, mode, endian, bytes)."
)
ASSUMPTIONS = [
    "ispec.decode of a single spec is trusted here (it is checked by C03); only the index/ordering logic is under test",
    "equal-weight acceptors are compared as a set (the property fixes only most-constrained-first)",
    "decode is called the way CoreExec.read_instruction calls it (no kwargs; wasm: address=0, code=bytes)",
]

N = {"quick": 1500, "thorough": 60000}


BIG = {"amoco.arch.x64.cpu_x64": 4, "amoco.arch.x86.cpu_x86": 4, "amoco.arch.arm.cpu_armv7": 2, "amoco.arch.tricore.cpu": 2}
SWEEP = {"quick": 6, "thorough": 100}  # budget per mode = max(N, SWEEP * number of shipped specs)


def shards(tier, seed):
    out = []
    for n in visa.all_names():
        k = BIG.get(n, 1)
        out += [{"isa": n, "sub": j, "nsub": k} for j in range(k)]
    return out


def popcount(x):
    return bin(x).count("1")


class Ref(object):
    def __init__(self, I):
        from amoco.arch.core import DecodeError, InstructionError

        self.I = I
        self.err = (DecodeError, InstructionError)
        # registration order, stable sort by my own popcount
        self.order = [sorted(s, key=lambda x: -popcount(x.mask.ival)) for s in I.snap]
        self.naccept = 0
        self.npfx = 0

    def pending(self, b0, e, chain):
        p = None
        off = 0
        for s in chain:
            i = s.decode(b0[off:], e, i=p, iclass=self.I.d.iclass)
            if p is None:
                p = i
            off += s.mask.size // 8
        return p, off

    def outcomes(self, b0, mode, e, chain=()):
        if len(chain) > 16:
            return {("DEEP",)}
        _, off = self.pending(b0, e, chain) if chain else (None, 0)
        rest = b0[off:]
        w = None
        acc = []
        for s in self.order[mode]:
            hw = popcount(s.mask.ival)
            if w is not None and hw < w:
                break
            p, _ = self.pending(b0, e, chain) if chain else (None, 0)
            try:
                i = s.decode(rest, e, i=p, iclass=self.I.d.iclass)
            except self.err:
                continue
            except Exception as x:
                acc.append((s, ("EXC", type(x).__name__)))
                w = hw
                continue
            w = hw
            acc.append((s, i))
        self.naccept = max(self.naccept, len(acc))
        if not acc:
            return {None}
        out = set()
        for s, i in acc:
            if isinstance(i, tuple):
                out.add(i)
            elif i.spec.pfx is True:
                self.npfx += 1
                out |= self.outcomes(b0, mode, e, chain + (s,))
            else:
                try:
                    if i.spec.pfx == "xdata":
                        i.xdata(i, address=0, code=b0)
                    out.add(visa.fingerprint(i))
                except Exception as x:
                    out.add(("EXC", type(x).__name__))
        return out

    def count_acceptors(self, b, mode, e):
        """number of non-prefix specs that accept b (for the non-triviality rule)"""
        n = 0
        for s in self.order[mode]:
            try:
                s.decode(b, e, i=None, iclass=self.I.d.iclass)
                n += 1
            except Exception:
                pass
        return n


def structural(I, part):
    """every spec below (f,val) has f within adjust(mask) and adjust(fix)&f == val;
    multiset of leaves == registered specs"""
    d = I.d
    maxsize = d.maxlen * 8
    for mode, tree in enumerate(d.specs):
        for (m2, e) in I.modes():
            if m2 != mode:
                continue
            # the tree is built once with the endianness at import time
            pass
        e0 = d.endian() if not I.is_arm else 1
        adj = (lambda x: x.ival << (maxsize - x.size)) if e0 == -1 else (lambda x: x.ival)
        leaves = []
        nodes = 0

        def walk(fl, path):
            nonlocal nodes
            f, l = fl
            nodes += 1
            if f == 0:
                for s in l:
                    leaves.append(s)
                    for (pf, pv) in path:
                        if adj(s.mask) & pf != pf:
                            part.fail("struct:mask-not-covering:%s" % I.short, dict(isa=I.name, mode=mode, format=s.format, f=hex(pf)), "spec routed by bits outside its mask")
                        elif adj(s.fix) & pf != pv:
                            part.fail("struct:fix-mismatch:%s" % I.short, dict(isa=I.name, mode=mode, format=s.format, f=hex(pf), val=hex(pv)), "spec under wrong branch")
                # weight order inside a leaf
                ws = [popcount(s.mask.ival) for s in l]
                if ws != sorted(ws, reverse=True):
                    part.fail("struct:leaf-order:%s" % I.short, dict(isa=I.name, mode=mode, formats=[s.format for s in l]), "leaf not in most-constrained-first order")
            else:
                for v, sub in l.items():
                    walk(sub, path + [(f, v)])

        walk(tree, [])
        reg = I.snap[mode]
        a = collections.Counter(id(s) for s in leaves)
        b = collections.Counter(id(s) for s in reg)
        if a != b:
            miss = [s.format for s in reg if a[id(s)] != 1]
            part.fail("struct:leaves-differ:%s" % I.short, dict(isa=I.name, mode=mode, missing=miss[:5], nleaves=len(leaves), nreg=len(reg)), "leaves of the tree are not the registered specs")
        part.count("struct_nodes", nodes)
        part.count("struct_specs", len(leaves))
        part.case(("struct", I.name, mode), True, None)
    part.exhaustive["tree_routing_invariant"] = True


def one_case(I, R, b, mode, e, history=()):
    """returns None | (bucket, detail). `history`: byte strings decoded just before
    on the same disassembler object (part of the case, replayed first)"""
    I.set_mode(mode, e)
    try:
        for h in history:
            try:
                I.decode(h, guard=3)
            except (Exception, visa.HarnessTimeout):
                pass
        try:
            a = visa.fingerprint(I.decode(b, guard=3))
        except Exception as x:
            a = ("EXC", type(x).__name__)
        except visa.HarnessTimeout:
            return "timeout"
        R.npfx = 0
        R.naccept = 0
        # NB: the decoder's pending-prefix state is deliberately NOT reset between
        # cases (only after an exception, see isa.decode): a stale prefix left by an
        # earlier call must show up as a mismatch here. The reference scan never
        # touches the disassembler object.
        try:
            with visa.time_guard(6):
                ref = R.outcomes(b, mode, e)
        except visa.HarnessTimeout:
            return "timeout"
    finally:
        I.reset_mode()
    if a in ref:
        return None
    kind = "none-vs-instr" if a is None else ("instr-vs-none" if ref == {None} else "different")
    return ("diff:%s:m%d:e%d:%s" % (I.short, mode, e, kind), "bytes=%s amoco=%r ref=%r" % (b.hex(), a, sorted(map(repr, ref))[:3]))


def leaf_size(I, b, mode, e):
    """size of the leaf list the index routes b to (0 if routed nowhere); my own walk"""
    d = I.d
    w = b[: d.maxlen]
    if e == -1:
        v = int.from_bytes(w, "big") << (8 * (d.maxlen - len(w)))
    else:
        v = int.from_bytes(w, "little")
    fl = d.specs[mode]
    depth = 0
    while fl is not None:
        f, l = fl
        if f == 0:
            return len(l), depth
        fl = l.get(v & f)
        depth += 1
    return 0, depth


def run_shard(shard, tier, seed):
    from hypothesis import strategies as st

    part = Partial()
    I = visa.load(shard["isa"])
    R = Ref(I)
    if shard.get("sub", 0) == 0:
        structural(I, part)
    modes = I.modes()
    for (mode, e) in modes:
        n = max(N[tier] // len(modes), SWEEP[tier] * len(I.specs[mode])) // shard.get("nsub", 1) + 1
        hist = []

        def body(rnd, mode=mode, e=e, hist=hist):
            b = I.gen_x86_modrm(rnd, mode) if (I.is_x86 and rnd.random() < 0.25) else I.gen_bytes(rnd, mode, e)
            res = one_case(I, R, b, mode, e)
            prev = [h.hex() for h in hist[-3:]]
            hist.append(b)
            del hist[:-3]
            if res == "timeout":
                part.count("inconclusive_timeout")
                return
            short_be = e == -1 and len(b) < I.d.maxlen
            ls, depth = leaf_size(I, b, mode, e)
            nt = R.naccept >= 2 or R.npfx > 0 or short_be or (depth >= 1 and ls >= 1)
            case = dict(isa=I.name, mode=mode, endian=e, bytes=b.hex())
            part.case(case, nt, case)
            part.count("agree" if res is None else "mismatch")
            if depth >= 1 and ls >= 2:
                part.count("routed_to_multi_spec_leaf")
            if R.npfx:
                part.count("with_prefix")
            if R.naccept >= 2:
                part.count("tie_acceptors")
            if res is not None:
                part.fail(res[0], dict(case, history=prev), res[1])

        campaign(st.randoms(use_true_random=False), body, n, shard_seed(seed, I.name, mode, e, shard.get("sub", 0)))
    return part


def replay(case):
    if "bytes" not in case:
        I = visa.load(case["isa"])
        p = Partial()
        structural(I, p)
        for b, f in p.failures.items():
            return (b, f["detail"])
        return None
    I = visa.load(case["isa"])
    R = Ref(I)
    r = one_case(I, R, bytes.fromhex(case["bytes"]), case["mode"], case["endian"], [bytes.fromhex(h) for h in case.get("history", [])])
    return None if r == "timeout" else r


def shrink(case, bucket):
    if "bytes" not in case:
        return case
    I = visa.load(case["isa"])
    R = Ref(I)
    b = bytes.fromhex(case["bytes"])

    hist = [bytes.fromhex(h) for h in case.get("history", [])]

    def fails(x, hs=None):
        I.reset_decoder()
        r = one_case(I, R, x, case["mode"], case["endian"], hist if hs is None else hs)
        return r is not None and r != "timeout" and r[0] == bucket

    from vlib.shrink import ddmin_bytes

    if fails(b, []):
        hist = []
    elif hist and fails(b, hist[-1:]):
        hist = hist[-1:]
    if not fails(b):
        return case
    b = ddmin_bytes(b, fails, 150)
    c = dict(case)
    c["bytes"] = b.hex()
    c["history"] = [h.hex() for h in hist]
    return c
