"""C05 - a decoded instruction is determined by the bytes it consumes.

round-trip / metamorphic: i = d(b), n = i.length:
  i.bytes == b[:n], 1 <= n <= len(b), d(b[:n]) == i, d(b[:n]+t) == i for
  replacement suffixes t, the maxlen fetch window gives i, every truncation
  b[:k] (k < n) never yields an instruction longer than k.
"""
from vlib import isa as visa
from vlib.runner import Partial, campaign, shard_seed

ID = "C05"
RULE = (
    "spec-guided/random byte strings per ISA/mode/fetch endianness (as C04); for each decoded instruction 4 replacement "
    "suffixes (empty, zeros, 0xff.., random), every truncation down to length-1 and the maxlen fetch window are re-decoded. "
    "Non-trivial = the instruction decoded and (its spec is variable-length, or a prefix was consumed, or it is shorter than "
    "the string supplied, so that bytes beyond the consumed ones exist); distinct by (isa, mode, endian, bytes)."
)
ASSUMPTIONS = [
    "the instruction fingerprint (bytes, mnemonic, operand renderings and sizes, type, misc, attributes) is the observable of 'same instruction'",
    "wasm is decoded as its only caller does (address=0, code=bytes); the suffix reader sees the same replacement suffix",
]
N = {"quick": 1200, "thorough": 40000}
SWEEP = {"quick": 12, "thorough": 120}  # budget per mode = max(N, SWEEP * number of shipped specs): expected visits per spec


BIG = {"amoco.arch.x64.cpu_x64": 6, "amoco.arch.x86.cpu_x86": 6, "amoco.arch.arm.cpu_armv7": 2, "amoco.arch.tricore.cpu": 3}


def shards(tier, seed):
    out = []
    for n in visa.all_names():
        k = BIG.get(n, 1)
        out += [{"isa": n, "sub": j, "nsub": k} for j in range(k)]
    return out


def D(I, b):
    """fingerprint | None | ('EXC', type) | 'timeout'"""
    try:
        return visa.fingerprint(I.decode(b, guard=3))
    except visa.HarnessTimeout:
        return "timeout"
    except Exception as x:
        return ("EXC", type(x).__name__)


def check(I, b, mode, e, suffixes, history=()):
    """returns (status, bucket, detail, info) ; status in ok/none/fail/timeout.
    The decoder's pending-prefix state is NOT reset between decodes (only after an
    exception): a decode that leaves state behind must show up as a difference.
    `history`: earlier cases (bytes, suffixes) run first on the same disassembler."""
    for hb, hs in history:
        check(I, hb, mode, e, hs)
    I.set_mode(mode, e)
    try:
        r = D(I, b)
        if r == "timeout":
            return ("timeout", None, None, None)
        if r is None or r[0] == "EXC":
            return ("none", None, None, None)
        raw = bytes.fromhex(r[0])
        n = len(raw)
        mn = r[1]
        info = dict(n=n, mnemonic=mn)

        tag = I.short + (":m%d:e%d" % (mode, e) if I.is_arm else "")

        def bad(kind, detail):
            return ("fail", "%s:%s:%s" % (kind, tag, mn), "bytes=%s n=%d %s" % (b.hex(), n, detail), info)

        if not (1 <= n <= len(b)):
            return bad("length-range", "len(input)=%d instr=%r" % (len(b), r[:3]))
        if raw != b[:n]:
            return bad("bytes-not-prefix", "instr.bytes=%s" % raw.hex())
        x = D(I, b[:n])
        if x == "timeout":
            return ("timeout", None, None, None)
        if x != r:
            return bad("exact-differs", "d(b)=%r d(b[:n])=%r" % (r[:3], x if x is None else x[:3]))
        for t in suffixes:
            x = D(I, b[:n] + t)
            if x == "timeout":
                return ("timeout", None, None, None)
            if x != r:
                if x is None or x[0] == "EXC" or len(x[0]) // 2 > n:
                    # b[:n] is an incomplete encoding (the decoder wants more bytes when they exist)
                    # that was accepted all the same; otherwise bytes beyond n influence the result
                    # without being consumed
                    return bad("truncated-accepted", "suffix=%s d(b)=%r d(b+t)=%r" % (t.hex(), r[:3], x if x is None else x[:3]))
                return bad("suffix-dependent", "suffix=%s d(b)=%r d(b[:n]+t)=%r" % (t.hex(), r[:3], x if x is None else x[:3]))
        ml = I.d.maxlen
        if n <= ml:
            for t in suffixes[:2]:
                w = (b[:n] + t + bytes(ml))[:ml]
                x = D(I, w)
                if x == "timeout":
                    return ("timeout", None, None, None)
                if x != r:
                    return bad("window", "window=%s got=%r" % (w.hex(), x if x is None else x[:3]))
        for k in range(n - 1, max(n - 6, -1), -1):
            x = D(I, b[:k])
            if x == "timeout":
                return ("timeout", None, None, None)
            if x is None or x[0] == "EXC":
                continue
            xr = bytes.fromhex(x[0])
            if len(xr) > k or xr != b[: len(xr)]:
                return bad("truncation", "d(b[:%d]) = %r" % (k, x[:3]))
        return ("ok", None, None, info)
    finally:
        I.reset_mode()


def gen_suffixes(rnd):
    n1 = rnd.randrange(1, 12)
    n2 = rnd.randrange(1, 12)
    return [
        bytes(rnd.getrandbits(8) for _ in range(n1)),
        b"\xff" * n2,
        bytes(rnd.randrange(1, 10)),
        bytes(rnd.getrandbits(8) for _ in range(rnd.randrange(1, 20))),
    ]


def run_shard(shard, tier, seed):
    from hypothesis import strategies as st

    part = Partial()
    I = visa.load(shard["isa"])
    modes = I.modes()
    varlen = {id(s) for S in I.specs for s in S if s.size == 0}
    for (mode, e) in modes:
        nspec = len(I.specs[mode])
        n = max(N[tier] // len(modes), SWEEP[tier] * nspec) // shard.get("nsub", 1) + 1
        hist = []

        def body(rnd, mode=mode, e=e, hist=hist):
            b = I.gen_x86_modrm(rnd, mode) if (I.is_x86 and rnd.random() < 0.25) else I.gen_bytes(rnd, mode, e)
            suf = gen_suffixes(rnd)
            st_, bucket, detail, info = check(I, b, mode, e, suf)
            case = dict(isa=I.name, mode=mode, endian=e, bytes=b.hex(), suffixes=[t.hex() for t in suf],
                        history=[[h.hex(), [t.hex() for t in hs]] for h, hs in hist[-2:]])
            hist.append((b, suf))
            del hist[:-2]
            part.count(st_)
            if st_ in ("timeout",):
                return
            nt = False
            if info is not None:
                nt = info["n"] < len(b) or I.has_prefix
                if info["n"] < len(b):
                    part.count("shorter_than_input")
            part.case(case, nt, dict(isa=I.short, mode=mode, endian=e, bytes=b.hex(), length=info and info["n"], mnemonic=info and info["mnemonic"]))
            if st_ == "fail":
                part.fail(bucket, case, detail)

        campaign(st.randoms(use_true_random=False), body, n, shard_seed(seed, I.name, mode, e, shard.get("sub", 0)))
    return part


def replay(case):
    I = visa.load(case["isa"])
    hist = [(bytes.fromhex(h), [bytes.fromhex(t) for t in hs]) for h, hs in case.get("history", [])]
    st_, bucket, detail, info = check(I, bytes.fromhex(case["bytes"]), case["mode"], case["endian"], [bytes.fromhex(t) for t in case["suffixes"]], hist)
    if st_ == "fail":
        return (bucket, detail)
    return None


def shrink(case, bucket):
    from vlib.shrink import ddmin_bytes, ddmin_list

    I = visa.load(case["isa"])
    suf = [bytes.fromhex(t) for t in case["suffixes"]]

    hist = [(bytes.fromhex(h), [bytes.fromhex(t) for t in hs]) for h, hs in case.get("history", [])]

    def fails(b, s=None, h=None):
        I.reset_decoder()
        r = check(I, b, case["mode"], case["endian"], s or suf, hist if h is None else h)
        return r[0] == "fail" and r[1] == bucket

    b0 = bytes.fromhex(case["bytes"])
    if fails(b0, None, []):
        hist = []
    if not fails(b0):
        return case
    b = ddmin_bytes(b0, fails, 150)
    for t in suf:
        if fails(b, [t]):
            suf = [t]
            break
    c = dict(case)
    c["bytes"] = b.hex()
    c["suffixes"] = [t.hex() for t in suf]
    c["history"] = [[h.hex(), [t.hex() for t in hs]] for h, hs in hist]
    return c
