"""C06 - instruction semantics match the architecture (x86: the CPU, RISC-V: the manual).

differential on generated (encoding, concrete state) pairs:
  RISC-V  word + registers + pc -> amoco instruction(mapper) vs vlib/rvref.py (reference
          interpreter written from the ISA manual): registers, next pc, stored bytes
          and the bytes around them.
  x86-64  encoding + registers + flags + memory -> amoco instruction(mapper) vs the
          processor itself (vlib/x86native/run.c executes the bytes on that state in
          a sandboxed page layout): registers, memory window, the status flags the
          architecture defines for that instruction, taken/not-taken for branches.
          The same vectors without REX / 64-bit-only behaviour are also run through
          cpu_x86 (IA-32 forms with the same encoding and meaning).
"""
import gzip
import json
import os
import struct
import subprocess

from vlib import isa as visa
from vlib import rvref
from vlib.runner import Partial, campaign, shard_seed

ID = "C06"
RULE = (
    "RISC-V: 32-bit words of the base opcodes (80% valid encodings built field by field with boundary immediates and a small "
    "register set incl. x0 and rd==rs1==rs2, 20% any word with a base major opcode) on register files mixing boundary values "
    "(0, 1, -1, min, max, 2^31 neighbours, 12-bit neighbours) and random values, pc random/boundary, memory defined everywhere by a "
    "hash; x86: encodings from an operand-form grammar over the general-purpose integer subset (every operand size, REX/66/67, "
    "register and memory forms incl. SIB/RIP-relative, boundary immediates) on boundary/random registers, random status flags and "
    "memory. Non-trivial = the reference (manual interpreter / processor) defines a result and amoco decodes the bytes; distinct by "
    "(arch, encoding, state)."
)
ASSUMPTIONS = [
    "RISC-V reference = vlib/rvref.py, written from the unprivileged ISA manual (self-tested); x86 reference = this machine's processor executing the bytes (vlib/x86native/run.c) or the vendored table of such executions (corpus/c06_x86_table.jsonl.gz) when no native run is possible",
    "only status flags that the architecture manual defines for the instruction and operand values are compared (table DEFINED in vlib/x86flags.py); undefined results (BSF/BSR of 0, shift counts beyond the operand size for 8/16-bit, 16-bit BSWAP) make no claim",
    "register sign flags (.sf), which amoco semantics mutate in place on shared register objects, are reset to their import-time values before each case so that a case is judged as in a fresh process (history effects are C10's)",
]
N_RV = {"quick": 2500, "thorough": 60000}
RV_SUB = 4


def shards(tier, seed):
    out = []
    for xlen in (32, 64):
        out += [{"kind": "rv", "xlen": xlen, "sub": j} for j in range(RV_SUB)]
    out += [{"kind": "x86", "sub": j} for j in range(X86_SUB)]
    return out


# ---------------------------------------------------------------------------------------------
# RISC-V

RV = {32: "amoco.arch.riscv.cpu_rv32i", 64: "amoco.arch.riscv.cpu_rv64i"}
_ISA = {}


def isa_of(name):
    if name not in _ISA:
        I = visa.load(name)
        I._sf0 = [(r, r.sf) for r in regs_with_sf(I.cpu)]
        _ISA[name] = I
    return _ISA[name]


def regs_with_sf(cpu):
    from amoco.cas.expressions import reg

    out = []
    seen = set()
    for k, v in vars(cpu).items():
        vs = v if isinstance(v, (list, tuple)) else [v]
        for r in vs:
            if isinstance(r, reg) and id(r) not in seen:
                seen.add(id(r))
                out.append(r)
    return out


def reset_sf(I):
    for r, sf in I._sf0:
        r.sf = sf


def rv_check(case):
    """returns (status, bucket, detail, info): status ok|none|noref|fail|timeout"""
    from amoco.cas.expressions import cst, mem
    from amoco.cas.mapper import mapper

    xlen, w, regs, pc, salt = case["xlen"], case["word"], case["regs"], case["pc"], case["salt"]
    X = (1 << xlen) - 1
    load = lambda a, n: int.from_bytes(bytes(rvref.mem_byte((a + k) & X, salt) for k in range(n)), "little")
    ref = rvref.step(w, xlen, regs, pc, load)
    if ref is None:
        return ("noref", None, None, None)
    I = isa_of(RV[xlen])
    cpu = I.cpu
    reset_sf(I)
    try:
        i = I.decode(struct.pack("<I", w), address=pc, guard=5)
    except visa.HarnessTimeout:
        return ("timeout", None, None, None)
    except Exception:
        return ("none", None, None, None)
    if i is None:
        return ("none", None, None, None)
    tag = "rv%d:%s" % (xlen, ref.name)
    m = mapper()
    for k in range(1, 32):
        m[cpu.x[k]] = cst(regs[k], xlen)
    m[cpu.pc] = cst(pc, xlen)
    windows = []
    for a, n in ref.loads + [(a, n) for a, n, v in ref.stores]:
        lo, hi = a - 8, a + n + 8
        if lo < 0 or hi > X:
            return ("noref", None, None, None)  # window wraps around the address space: not modelled
        m.mmap.write(lo, bytes(rvref.mem_byte(x, salt) for x in range(lo, hi)))
        windows.append((lo, hi))
    try:
        with visa.time_guard(10):
            i(m)
    except visa.HarnessTimeout:
        return ("timeout", None, None, None)
    except Exception as x:
        return ("fail", "%s:exception:%s" % (tag, type(x).__name__), "%08x %s raised %r" % (w, ref.name, x), ref.name)
    info = ref.name

    def const(e):
        try:
            v = m(e)
        except Exception as x:
            return "exc:%s" % type(x).__name__
        return v.v & ((1 << v.size) - 1) if v._is_cst else None

    # registers
    for k in range(1, 32):
        v = const(cpu.x[k])
        if v != ref.regs[k]:
            what = "rd" if k == ref.rd else "other-register"
            kind = "symbolic" if v is None else ("exception" if isinstance(v, str) else "value")
            return ("fail", "%s:%s:%s" % (tag, what, kind), "%08x %s x%d: manual %#x, amoco %s (x%s before: %s, pc=%#x)"
                    % (w, ref.name, k, ref.regs[k], hex(v) if isinstance(v, int) else v, k, hex(regs[k]), pc), info)
    v = const(cpu.pc)
    if v != ref.pc:
        kind = "symbolic" if v is None else ("exception" if isinstance(v, str) else "value")
        return ("fail", "%s:pc:%s" % (tag, kind), "%08x %s next pc: manual %#x, amoco %s (pc=%#x)" % (w, ref.name, ref.pc, hex(v) if isinstance(v, int) else v, pc), info)
    # memory: the stored bytes and the 8 bytes on each side
    exp = {}
    for lo, hi in windows:
        for x in range(lo, hi):
            exp[x] = rvref.mem_byte(x, salt)
    for a, n, val in ref.stores:
        for k in range(n):
            exp[a + k] = (val >> (8 * k)) & 0xFF
    for x in sorted(exp):
        v = const(mem(cst(x, xlen), 8))
        if v != exp[x]:
            kind = "symbolic" if v is None else ("exception" if isinstance(v, str) else "value")
            return ("fail", "%s:memory:%s" % (tag, kind), "%08x %s byte at %#x: manual %#x, amoco %s" % (w, ref.name, x, exp[x], hex(v) if isinstance(v, int) else v), info)
    return ("ok", None, None, info)


def rv_shard(shard, tier, seed):
    from hypothesis import strategies as st

    part = Partial()
    xlen = shard["xlen"]
    X = (1 << xlen) - 1
    assert rvref.self_test()

    def body(rnd):
        w = rvref.gen_word(rnd, xlen)
        regs = [0] + [rvref.boundary(rnd, xlen) for _ in range(31)]
        if rnd.random() < 0.3:
            # equal / neighbouring operands: comparisons at the boundary
            a = rvref.boundary(rnd, xlen)
            for k in range(1, 32):
                regs[k] = (a + rnd.randrange(-1, 2)) & X if rnd.random() < 0.7 else regs[k]
        pc = [0x1000, 0, X - 3, 0x7FFFFFFC, 0x80000000, rnd.getrandbits(xlen) & ~3][rnd.randrange(6)] & X
        case = dict(kind="rv", xlen=xlen, word=w, regs=regs, pc=pc, salt=rnd.getrandbits(16))
        st_, bucket, detail, info = rv_check(case)
        part.count("rv%d:%s" % (xlen, st_))
        nt = st_ in ("ok", "fail")
        part.case(("rv", xlen, w, tuple(regs), pc), nt, dict(arch="rv%d" % xlen, word="%08x" % w, instruction=info, pc=hex(pc), result=st_))
        if nt:
            part.count("rv%d:instr:%s" % (xlen, info))
        if st_ == "fail":
            part.fail(bucket, case, detail)

    campaign(st.randoms(use_true_random=True), body, N_RV[tier], shard_seed(seed, "rv%d:%d" % (xlen, shard["sub"])))
    return part


# ---------------------------------------------------------------------------------------------
# x86

X86 = {"x64": "amoco.arch.x64.cpu_x64", "x86": "amoco.arch.x86.cpu_x86"}
GPR64 = ["rax", "rcx", "rdx", "rbx", "rsp", "rbp", "rsi", "rdi", "r8", "r9", "r10", "r11", "r12", "r13", "r14", "r15"]
GPR32 = ["eax", "ecx", "edx", "ebx", "esp", "ebp", "esi", "edi"]
TABLE = os.path.join(os.path.dirname(os.path.dirname(os.path.abspath(__file__))), "corpus", "c06_x86_table.jsonl.gz")
N_X86 = {"quick": 1500, "thorough": 40000}  # fresh vectors per shard
X86_SUB = 8


def shape(v):
    """sub-class of shift/rotate vectors whose count is special (part of the bucket: separate root causes)"""
    from vlib import x86gen as G

    meta = v["meta"]
    if "shift" not in meta or meta["name"] in ("SHLD", "SHRD"):
        return ""
    code = bytes.fromhex(v["code"])
    k = 0
    while code[k] in (0x66, 0x67, 0xF3):
        k += 1
    rexw = 0x48 <= code[k] <= 0x4F
    c = G.shift_count(v)
    raw = (code[-1] if meta["shift"] == "imm" else 1 if meta["shift"] == "one" else v["regs"][1] & 0xFF)
    if c == 0:
        return "-count0"
    if meta["name"] in ("ROL", "ROR") and c % meta["opsize"] == 0:
        return "-count-multiple-of-size"
    if meta["name"] in ("RCL", "RCR") and meta["opsize"] < 32:
        return "-through-carry-small"
    if c >= meta["opsize"]:
        return "-count-ge-size"
    return ""


def x86_check(v, nat, arch):
    """v: vector (vlib.x86gen), nat: the processor's result, arch: 'x64' | 'x86' (the IA-32 reading of an ia32 vector).
    returns (status, bucket, detail): status ok|none|noref|fail|timeout"""
    from amoco.cas.expressions import cst
    from amoco.cas.mapper import mapper
    from vlib import x86gen as G

    if nat is None or nat["sig"] != 0:
        return ("noref", None, None)
    meta = v["meta"]
    I = isa_of(X86[arch])
    cpu = I.cpu
    reset_sf(I)
    code = bytes.fromhex(v["code"])
    try:
        i = I.decode(code, address=G.INSN, guard=5)
    except visa.HarnessTimeout:
        return ("timeout", None, None)
    except Exception:
        return ("none", None, None)
    if i is None or i.length != len(code):
        return ("none", None, None)  # boundaries are C07's
    bits = 64 if arch == "x64" else 32
    Xm = (1 << bits) - 1
    names = GPR64 if arch == "x64" else GPR32
    gpr = [getattr(cpu, n) for n in names]
    tag = "%s:%s%s" % (arch, meta["name"], shape(v))
    form = "m" if "memaddr" in meta else "r"
    m = mapper()
    for r, val in zip(gpr, v["regs"]):
        m[r] = cst(val & Xm, bits)
    m[cpu.rip if arch == "x64" else cpu.eip] = cst(G.INSN, bits)
    m[cpu.rflags if arch == "x64" else cpu.eflags] = cst(v["flags"], bits)
    m.mmap.write(G.DATA, G.data_bytes(v["salt"], v.get("poke")))
    m.mmap.write(G.SPAGE, G.stack_bytes(v["salt"], v["stk0"]))
    try:
        with visa.time_guard(10):
            i(m)
    except visa.HarnessTimeout:
        return ("timeout", None, None)
    except Exception as x:
        return ("fail", "%s:exception:%s" % (tag, type(x).__name__), "%s %s (opsize %d, %s form) raised %r" % (v["code"], meta["name"], meta["opsize"], form, x))

    def const(e):
        """int | None (symbolic: depends on state that was not given) | 'top' (amoco declares the value unknown) | 'exc:Type'"""
        from vlib import refsem

        try:
            val = m(e)
            if val._is_cst:
                return val.v & ((1 << val.size) - 1)
            try:
                # value of a constant expression that amoco left unreduced (computed by the independent walker)
                return refsem.walk(val, {})
            except refsem.Inconclusive as x:
                return "top" if str(x) == "top" else None
        except Exception as x:
            return "exc:%s" % type(x).__name__

    def bad(what, exp, got):
        kind = "symbolic" if got is None else ("exception" if isinstance(got, str) else "value")
        return ("fail", "%s:%s:%s" % (tag, what, kind), "%s %s (opsize %d, %s form, %s): %s: processor %s, amoco %s; registers before: %s flags before: %#x"
                % (v["code"], meta["name"], meta["opsize"], form, arch, what, hex(exp) if isinstance(exp, int) else exp, hex(got) if isinstance(got, int) else got,
                   " ".join("%s=%#x" % (n, val) for n, val in zip(names, v["regs"])), v["flags"]))

    mask, cmp_dest = G.defined(v)
    # next instruction pointer
    exp_ip = (G.INSN + v["tgt"]) if nat["taken"] else G.INSN + len(code)
    got = const(cpu.rip if arch == "x64" else cpu.eip)
    if got != exp_ip:
        return bad("ip", exp_ip, got)
    if cmp_dest is False:
        return ("ok", None, None)
    skip = set()
    tops = []
    if cmp_dest == "bsx" and nat["flags"] & G.ZF:
        skip.add(meta.get("reg"))  # destination undefined when the source is 0
    for k, r in enumerate(gpr):
        if k in skip:
            continue
        got = const(r)
        if got == "top":
            tops.append(names[k])
            continue
        if got != nat["regs"][k] & Xm:
            return bad("reg", nat["regs"][k] & Xm, got)
    for fn, bit in G.FLAGBITS.items():
        if not ((mask | G.DF) >> bit) & 1:
            continue
        got = const(getattr(cpu, fn))
        if got == "top":
            tops.append(fn)
            continue
        if got != (nat["flags"] >> bit) & 1:
            return bad("flag-" + fn, (nat["flags"] >> bit) & 1, got)
    for what, base, size, ref in (("mem", G.DATA, G.DSZ, nat["data"]), ("stack", G.SPAGE, G.SSZ, nat["stack"])):
        try:
            parts = m.mmap.read(base, size)
        except Exception as x:
            return bad(what, "readable", "exc:%s" % type(x).__name__)
        pos = 0
        for part in parts:
            if isinstance(part, bytes):
                b = part
            elif part._is_cst:
                b = (part.v & ((1 << part.size) - 1)).to_bytes(part.size // 8, "little")
            else:
                from vlib import refsem

                try:
                    b = refsem.walk(part, {}).to_bytes(part.size // 8, "little")
                except refsem.Inconclusive as x:
                    if str(x) == "top":
                        tops.append("%s+%#x" % (what, pos))
                        pos += part.size // 8
                        continue
                    return bad(what, "constant bytes at +%#x" % pos, None)
            if b != ref[pos: pos + len(b)]:
                k = next(j for j in range(len(b)) if b[j] != ref[pos + j])
                return bad("%s" % what, "byte %#x at %#x" % (ref[pos + k], base + pos + k), b[k])
            pos += len(b)
    if tops:
        return ("ok-partial", None, ",".join(tops))
    return ("ok", None, None)


def x86_account(part, v, nat, src):
    archs = ["x64"] + (["x86"] if v["meta"].get("ia32") else [])
    for arch in archs:
        st_, bucket, detail = x86_check(v, nat, arch)
        part.count("%s:%s:%s" % (arch, src, st_))
        nt = st_ in ("ok", "ok-partial", "fail")
        meta = v["meta"]
        if st_ == "ok-partial":
            part.count("%s:unknown(top)-results-not-compared:%s" % (arch, meta["name"]))
        part.case((arch, v["code"], tuple(v["regs"]), v["flags"], v["salt"]), nt,
                  dict(arch=arch, code=v["code"], instruction=meta["name"], opsize=meta["opsize"], form="m" if "memaddr" in meta else "r", source=src, result=st_))
        if nt:
            part.count("%s:instr:%s" % (arch, meta["name"]))
            part.count("%s:opsize:%d" % (arch, meta["opsize"]))
            part.count("%s:form:%s" % (arch, "memory" if "memaddr" in meta else "register"))
        if st_ == "fail":
            part.fail(bucket, dict(kind="x86", arch=arch, row=G_compact(v, nat)), detail)


def G_compact(v, nat):
    from vlib import x86gen as G

    return G.compact(v, nat)


def load_table():
    with gzip.open(TABLE, "rt") as f:
        for line in f:
            yield json.loads(line)


def x86_shard(shard, tier, seed):
    from hypothesis import strategies as st
    from vlib import x86gen as G

    part = Partial()
    j = shard["sub"]
    if os.path.exists(TABLE):
        for n, row in enumerate(load_table()):
            if n % X86_SUB == j:
                v, nat = G.expand(row)
                x86_account(part, v, nat, "table")
    if not G.have_native():
        part.count("x86:fresh:no-native-executor")
        return part
    assert G.self_test()  # (an AssertionError here is a harness error: exit 2)
    BATCH = 250

    def body(rnd):
        vs = []
        while len(vs) < BATCH:
            v = G.gen_vector(rnd, ia32=rnd.random() < 0.3)
            if v is not None:
                vs.append(v)
        res = G.run_native(vs)
        for v, nat in zip(vs, res):
            x86_account(part, v, nat, "fresh")

    campaign(st.randoms(use_true_random=True), body, max(1, N_X86[tier] // BATCH), shard_seed(seed, "x86:%d" % j))
    return part


# ---------------------------------------------------------------------------------------------


def run_shard(shard, tier, seed):
    if shard["kind"] == "rv":
        return rv_shard(shard, tier, seed)
    if shard["kind"] == "x86":
        return x86_shard(shard, tier, seed)
    raise ValueError(shard)


def replay(case):
    if case["kind"] == "rv":
        st_, bucket, detail, info = rv_check(case)
        return (bucket, detail) if st_ == "fail" else None
    if case["kind"] == "x86":
        from vlib import x86gen as G

        v, nat = G.expand(case["row"])
        st_, bucket, detail = x86_check(v, nat, case["arch"])
        return (bucket, detail) if st_ == "fail" else None
    raise ValueError(case)


def shrink(case, bucket):
    """zero the registers the failure does not need"""
    if case["kind"] != "rv":
        return case
    regs = list(case["regs"])
    for k in range(1, 32):
        if regs[k] == 0:
            continue
        t = list(regs)
        t[k] = 0
        r = replay(dict(case, regs=t))
        if r and r[0] == bucket:
            regs = t
    c = dict(case, regs=regs)
    for pc in (0x1000,):
        r = replay(dict(c, pc=pc))
        if r and r[0] == bucket:
            c = dict(c, pc=pc)
    return c
