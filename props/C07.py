"""C07 - x86/x64 instruction boundaries agree with reference disassemblers.

differential: byte strings (<= 15 bytes, followed by a NOP sled) generated from
every shipped x86/x64 spec with random prefixes, ModRM/SIB, displacements and
immediates, plus random strings. The oracle is the pair GNU objdump /
llvm-objdump: only strings on which both report a valid instruction of the same
length (and, for relative branches, the same target) take part. If amoco decodes
the string at all, its length must be that length and the operand of a relative
JMP/Jcc/CALL/LOOP/JECXZ must be that displacement.

quick: the vendored table corpus/c07_table.jsonl.gz (built by tools/build_c07_table.py
from the same generators, 180k agreed rows) + fresh generated strings through the
live tools when they are installed; thorough: the table + many more fresh strings.
"""
import gzip
import json
import os

from vlib import isa as visa
from vlib import x86ref
from vlib.runner import Partial, campaign, shard_seed

ID = "C07"
RULE = (
    "byte strings <= 15 bytes in 32- and 64-bit mode: 75% generated from a shipped x86/x64 spec (fixed bits kept, free bits random, "
    "0..4 legacy prefixes / REX, operand bytes random or boundary), 15% dependency-biased common instructions, 10% random bytes. "
    "A string takes part when GNU objdump and llvm-objdump both decode its first instruction as valid with the same length "
    "(and the same branch target). Non-trivial = amoco decodes the string (otherwise the property makes no claim); distinct by (mode, bytes)."
)
ASSUMPTIONS = [
    "the reference answer is the agreement of GNU objdump (binutils) and llvm-objdump on the string laid out in a 32-byte slot padded with NOPs; strings on which they disagree or which need more than the supplied bytes make no claim",
    "branch displacements are compared modulo 2^16 when a 66 prefix is present in 32-bit mode (the references print the truncated target), else modulo the mode's address width",
    "the vendored table was produced in this sandbox by tools/build_c07_table.py; fresh strings are generated and judged by the live tools at every run when objdump/llvm-objdump/llvm-objcopy are on PATH",
]
FRESH = {"quick": 4, "thorough": 150}  # batches of BATCH fresh candidates per shard
BATCH = 500
NSHARDS = 16
MODES = {32: "amoco.arch.x86.cpu_x86", 64: "amoco.arch.x64.cpu_x64"}
TABLE = os.path.join(os.path.dirname(os.path.dirname(os.path.abspath(__file__))), "corpus", "c07_table.jsonl.gz")
PREFIXES = {0x66, 0x67, 0xF0, 0xF2, 0xF3, 0x2E, 0x36, 0x3E, 0x26, 0x64, 0x65}
BRANCHES = ("JMP", "CALL", "JCC", "LOOP", "LOOPE", "LOOPNE", "JECXZ", "JRCXZ", "JCXZ")


def shards(tier, seed):
    return [{"sub": j} for j in range(NSHARDS)]


_ISA = {}


def isa_of(mode):
    if mode not in _ISA:
        _ISA[mode] = visa.load(MODES[mode])
    return _ISA[mode]


def features(b, mode):
    k = 0
    while k < len(b) and (b[k] in PREFIXES or (mode == 64 and 0x40 <= b[k] <= 0x4F)):
        k += 1
    f = []
    if k:
        f.append("prefixed")
    if any(0x40 <= x <= 0x4F for x in b[:k]) and mode == 64:
        f.append("rex")
    if 0x66 in b[:k]:
        f.append("opsize")
    if 0x67 in b[:k]:
        f.append("adsize")
    if b[k: k + 1] == b"\x0f":
        f.append("0f-map")
    return f, k


def amoco_disp(i):
    """the displacement operand of a relative branch, or None"""
    if i.mnemonic.upper() not in BRANCHES and not i.mnemonic.upper().startswith("J"):
        return None
    if not i.operands:
        return None
    op = i.operands[0]
    if getattr(op, "_is_cst", False):
        v = op.v
        return v - (1 << op.size) if op.sf and v >> (op.size - 1) else v
    return None


def raw_decode(I, b):
    """decode exactly as a caller holding this byte string would; the decoder is left as amoco left it"""
    try:
        return I.decode(b, address=0x1000, guard=5)
    except visa.HarnessTimeout:
        raise
    except Exception:
        return None  # crashes are C17's


def check_row(mode, hx, length, disp, history=()):
    """returns (status, bucket, detail); status ok|none|fail|timeout|history.
    The string is decoded twice on the shared disassembler object, which is never reset by the
    harness: as it is (what a caller holding this buffer gets), and followed by the NOP sled the
    references saw. `history`: byte strings decoded (as they are) just before, in the same process."""
    I = isa_of(mode)
    try:
        for h in history:
            raw_decode(I, bytes.fromhex(h))
        b = bytes.fromhex(hx)
        i1 = raw_decode(I, b)
        if length is None:
            return ("history", None, None)
        slot = (b + b"\x90" * x86ref.SLOT)[: x86ref.SLOT]
        i2 = raw_decode(I, slot)
    except visa.HarnessTimeout:
        return ("timeout", None, None)
    if i1 is None and i2 is None:
        return ("none", None, None)
    f, k = features(b, mode)
    cls = "+".join(x for x in f if x in ("opsize", "adsize", "rex")) or "plain"
    for how, i in (("as it is", i1), ("followed by NOPs", i2)):
        if i is None:
            continue
        mn = str(i.mnemonic)
        if i.length != length:
            return ("fail", "length:%d:%s:%s" % (mode, mn, cls),
                    "%s in %d-bit mode: objdump and llvm-objdump both say %d bytes, amoco (string %s%s) %s is %d bytes"
                    % (hx, mode, length, how, ", after decoding %s" % list(history) if history else "", mn, i.length))
        if disp is not None:
            d = amoco_disp(i)
            mod = 1 << (16 if (mode == 32 and "opsize" in f) else mode)
            if d is None or (d - disp) % mod:
                return ("fail", "disp:%d:%s:%s" % (mode, mn, cls),
                        "%s in %d-bit mode: references give displacement %#x, amoco (string %s) operand %s" % (hx, mode, disp % mod, how, i.operands[:1]))
    return ("ok", None, None)


def gen_cands(I, rnd, n):
    """n distinct candidate strings (<= 15 bytes) in generation order"""
    out = []
    seen = set()
    while len(out) < n:
        k = rnd.random()
        if k < 0.5:
            b = I.gen_bytes(rnd, 0, 1)
        elif k < 0.75:
            b = I.gen_x86_modrm(rnd, 0)
        elif k < 0.9:
            b = I.gen_instr_bytes(rnd, 0, 1)
        else:
            b = bytes(rnd.getrandbits(8) for _ in range(rnd.randrange(1, 16)))
        b = bytes(b[:15])
        if b and b not in seen:
            seen.add(b)
            out.append(b)
    return out


def load_table():
    with gzip.open(TABLE, "rt") as f:
        for line in f:
            yield json.loads(line)


def account(part, mode, hx, length, disp, src, hist):
    st, bucket, detail = check_row(mode, hx, length, disp)
    if st == "history":
        part.count("%s:no-reference-claim(decoded as history only)" % src)
        hist.append(hx)
        del hist[:-2]
        return
    b = bytes.fromhex(hx)
    f, k = features(b, mode)
    nt = st in ("ok", "fail")
    part.case((mode, hx), nt, dict(mode=mode, bytes=hx, ref_length=length, ref_disp=disp, source=src, amoco=st))
    part.count("%s:%s" % (src, st))
    if nt:
        part.count("class:" + ("branch" if disp is not None else "+".join(f) or "plain"))
        part.count("length:%d" % length)
        if len(b) > 1 + k and b[k] != 0x0F and (b[k + 1] & 0xC7) == 0x04 and (b[k + 2: k + 3] and b[k + 2] & 7 == 5):
            part.count("shape:modrm-sib-nobase")
    if st == "fail":
        part.fail(bucket, dict(mode=mode, hex=hx, length=length, disp=disp, history=list(hist)), detail)
    hist.append(hx)
    del hist[:-2]


def run_shard(shard, tier, seed):
    from hypothesis import strategies as st

    part = Partial()
    j = shard["sub"]
    rows = list(load_table())
    per = (len(rows) + NSHARDS - 1) // NSHARDS
    hist = []
    for mode, hx, length, disp in rows[j * per: (j + 1) * per]:
        account(part, mode, hx, length, disp, "table", hist)
    del rows
    if not x86ref.have_tools():
        part.count("fresh:tools-missing")
        return part
    for mode in (32, 64):
        I = isa_of(mode)

        def body(rnd):
            cands = gen_cands(I, rnd, BATCH)
            rows, stats = x86ref.eligible_rows(cands, mode)
            for k_, v in stats.items():
                part.count("refs:%s" % k_, v)
            ref = dict((hx, (length, disp)) for hx, length, disp in rows)
            hist = []
            for c in cands:
                length, disp = ref.get(c.hex(), (None, None))
                account(part, mode, c.hex(), length, disp, "fresh", hist)

        campaign(st.randoms(use_true_random=True), body, FRESH[tier], shard_seed(seed, "%d:%d" % (mode, j)))
    return part


def replay(case):
    st, bucket, detail = check_row(case["mode"], case["hex"], case["length"], case["disp"], case.get("history", ()))
    return (bucket, detail) if st == "fail" else None


def shrink(case, bucket):
    """drop the history if it is not needed, then the trailing bytes the references did not consume"""
    for c in (dict(case, history=[], hex=case["hex"][: 2 * case["length"]]), dict(case, history=[]), dict(case, history=case.get("history", [])[-1:])):
        r = replay(c)
        if r and r[0] == bucket:
            return c
    return case
