"""C08 - abstract memory behaves as a last-write-wins byte store.

Stateful machine over two MemoryMaps (A, and B = a copy of A taken at some
point) with a concrete zone and two symbolic zones. Model: zone -> address ->
(value of that byte under 3 valuations, endianness of the write) or undefined.
Every read is flattened to per-byte descriptors and compared byte for byte.
"""
import pickle

from vlib import refsem as R
from vlib.runner import Partial, shard_seed
from props.C13 import Env

ID = "C08"
RULE = (
    "histories of up to 25 (quick) / 40 (thorough) operations: writes of raw bytes, constants, registers, sums and slices "
    "(1..16 bytes, both endiannesses) at clustered addresses of a concrete zone and two symbol-relative zones, reads of "
    "arbitrary ranges (also unmapped / negative offsets), copy, restruct, shift, merge and pickling of the map; a second map "
    "B is a copy of A and both keep being written and read. Non-trivial = a symbolic (expression) write was partially "
    "overwritten by a later write and a read crossed the seam, or a write happened after a copy and the other map was read; "
    "distinct by the operation history."
)
ASSUMPTIONS = [
    "a multi-byte expression part returned by read() is interpreted with the endianness of the write that the model records for its first byte",
    "3 fixed valuations of the registers stand for 'the same symbolic byte'",
]
NMACH = {"quick": 400, "thorough": 6000}
STEPS = {"quick": 25, "thorough": 40}
NSHARDS = 16
ENVS = [Env(k) for k in range(3)]
BASE = 0x1000
ZONES = ("", "p", "q")


def shards(tier, seed):
    return [{"sub": j} for j in range(NSHARDS)]


class Violation(Exception):
    def __init__(self, bucket, detail):
        Exception.__init__(self, bucket + ": " + detail)
        self.bucket = bucket
        self.detail = detail


def byte_vals(e, endian, k):
    """byte k (in memory order) of expression e written with `endian`, under the 3 valuations"""
    n = e.size // 8
    idx = k if endian == 1 else n - 1 - k
    return tuple((R.walk(e, env) >> (8 * idx)) & 0xFF for env in ENVS)


def mk_value(op):
    """returns (amoco value (bytes | exp), nbytes, list of per-byte value tuples)"""
    from amoco.cas import expressions as E

    kind = op["kind"]
    endian = op.get("endian", 1)
    if kind == "raw":
        data = bytes.fromhex(op["hex"])
        return data, len(data), [((b,) * 3) for b in data]
    size = op["size"]
    if kind == "cst":
        e = E.cst(op["v"] & ((1 << size) - 1), size)
    elif kind == "reg":
        e = E.reg("r%d_%d" % (op["v"] % 3, size), size)
    elif kind == "sum":
        e = E.reg("s%d" % size, size) + E.reg("t%d" % size, size)
    elif kind == "xor":
        e = E.reg("s%d" % size, size) ^ E.cst(op["v"] & ((1 << size) - 1), size)
    else:  # slice of a wider register at a byte boundary
        e = E.reg("w%d" % (2 * size), 2 * size)[8: 8 + size]
    n = size // 8
    return e, n, [byte_vals(e, endian, k) for k in range(n)]


class Model(object):
    def __init__(self):
        from amoco.system.memory import MemoryMap

        self.maps = {"A": MemoryMap(), "B": None}
        self.model = {"A": {z: {} for z in ZONES}, "B": None}
        self.hist = []
        self.seam_reads = 0
        self.after_copy_reads = 0
        self.expr_writes = {"A": [], "B": []}  # (zone, addr, n) of expression writes, to detect seams
        self.dirty_since_copy = False

    def addr(self, zone, off):
        from amoco.cas import expressions as E

        if zone == "":
            return BASE + off
        return E.ptr(E.reg(zone + "32", 32), disp=off)

    def zone_key(self, mm, zone):
        for k in mm._zones:
            if (k is None and zone == "") or (k is not None and str(k) == zone + "32"):
                return (k,)
        return None

    # ---- reading and comparing --------------------------------------------
    def read_check(self, which, zone, off, l, label):
        mm = self.maps[which]
        mdl = self.model[which][zone]
        try:
            parts = mm.read(self.addr(zone, off), l)
        except MemoryError:
            if mdl:
                raise Violation("read-MemoryError:%s" % label, "%s zone %r [%d,+%d) raised MemoryError but the model has bytes there" % (which, zone, off, l))
            return
        pos = off
        seam = False
        for p in parts:
            if isinstance(p, bytes):
                for i, b in enumerate(p):
                    m = mdl.get(pos + i)
                    if m is None or m[0] != (b,) * 3:
                        raise Violation("read-raw:%s" % label, "%s zone %r read [%d,+%d): raw byte %#x at %d, model has %r; parts=%s" % (which, zone, off, l, b, pos + i, m, render(parts)))
                pos += len(p)
                continue
            if not hasattr(p, "size") or p.size % 8 != 0 or p.size == 0:
                raise Violation("read-part:%s" % label, "%s zone %r read [%d,+%d): part %r is not a whole number of bytes" % (which, zone, off, l, p))
            n = p.size // 8
            if not p._is_def:
                for i in range(n):
                    if mdl.get(pos + i) is not None:
                        raise Violation("read-undefined:%s" % label, "%s zone %r read [%d,+%d): byte %d reported undefined, model has %r; parts=%s" % (which, zone, off, l, pos + i, mdl.get(pos + i), render(parts)))
                pos += n
                continue
            m0 = mdl.get(pos)
            if m0 is None:
                raise Violation("read-defined-over-unwritten:%s" % label, "%s zone %r read [%d,+%d): part %s at %d, never written; parts=%s" % (which, zone, off, l, p, pos, render(parts)))
            endian = m0[1]
            try:
                got = [byte_vals(p, endian, i) for i in range(n)]
            except R.Inconclusive:
                pos += n
                continue
            for i in range(n):
                m = mdl.get(pos + i)
                if m is None or m[0] != got[i]:
                    raise Violation("read-expr:%s" % label, "%s zone %r read [%d,+%d): part %s byte %d (addr %d, endian %d) is %r, model has %r; parts=%s" % (which, zone, off, l, p, i, pos + i, endian, got[i], m, render(parts)))
            # did this read cross a seam of a partially overwritten expression write?
            pos += n
        if pos != off + l:
            raise Violation("read-length:%s" % label, "%s zone %r read [%d,+%d) returned %d bytes; parts=%s" % (which, zone, off, l, pos - off, render(parts)))
        for (z, a, n) in self.expr_writes[which]:
            if z == zone and any(mdl.get(a + i, (None, 0, -1))[2] != (z, a, n) for i in range(n)) and off < a + n and a < off + l:
                seam = True
        if seam:
            self.seam_reads += 1

    def write_model(self, which, zone, off, vals, endian, tag):
        mdl = self.model[which][zone]
        for i, v in enumerate(vals):
            mdl[off + i] = (v, endian, tag)

    # ---- operations ----------------------------------------------------------
    def apply(self, op):
        self.hist.append(op)
        k = op["op"]
        which = op.get("map", "A")
        if self.maps[which] is None:
            which = "A"
        mm = self.maps[which]
        zone = ZONES[op.get("zone", 0) % 3]
        off = op.get("off", 0)
        if k == "write":
            val, n, vals = mk_value(op)
            endian = op.get("endian", 1)
            mm.write(self.addr(zone, off), val, endian)
            tag = (zone, off, n) if not isinstance(val, bytes) and not val._is_cst else None
            self.write_model(which, zone, off, vals, endian, tag)
            if tag:
                self.expr_writes[which].append(tag)
            if self.maps["B"] is not None:
                self.dirty_since_copy = True
        elif k == "read":
            self.read_check(which, zone, off, op["len"], "read")
            if self.dirty_since_copy:
                self.after_copy_reads += 1
        elif k == "copy":
            self.maps["B"] = self.maps["A"].copy()
            self.model["B"] = {z: dict(d) for z, d in self.model["A"].items()}
            self.expr_writes["B"] = list(self.expr_writes["A"])
            self.dirty_since_copy = False
        elif k == "swapcopy":
            # continue with the copy as primary (the original stays as B)
            if self.maps["B"] is not None:
                self.maps["A"], self.maps["B"] = self.maps["B"], self.maps["A"]
                self.model["A"], self.model["B"] = self.model["B"], self.model["A"]
                self.expr_writes["A"], self.expr_writes["B"] = self.expr_writes["B"], self.expr_writes["A"]
        elif k == "restruct":
            mm.restruct()
        elif k == "shift":
            key = self.zone_key(mm, zone)
            if key is not None:
                d = op["delta"]
                mm._zones[key[0]].shift(d)
                self.model[which][zone] = {a + d: v for a, v in self.model[which][zone].items()}
                self.expr_writes[which] = [((z, a + d, n) if z == zone else (z, a, n)) for (z, a, n) in self.expr_writes[which]]
                self.model[which][zone] = {a: (v[0], v[1], ((v[2][0], v[2][1] + d, v[2][2]) if v[2] else None)) for a, v in self.model[which][zone].items()}
        elif k == "merge":
            # A.merge(B): B's objects are written over A
            if self.maps["B"] is not None and which == "A":
                other = self.maps["B"].copy()
                self.maps["A"].merge(other)
                for z in ZONES:
                    for a, v in self.model["B"][z].items():
                        self.model["A"][z][a] = v
                self.expr_writes["A"] += self.expr_writes["B"]
        elif k == "pickle":
            m2 = pickle.loads(pickle.dumps(mm))
            if str(m2) != str(mm):
                raise Violation("pickle:str", "%s ---> %s" % (mm, m2))
            self.maps[which] = m2
        else:
            raise ValueError(op)
        # after every step: a probe read of both maps around the touched area
        for w in ("A", "B"):
            if self.maps[w] is not None:
                self.read_check(w, zone, op.get("off", 0) - 2, 22, k)

    def final(self):
        for w in ("A", "B"):
            if self.maps[w] is None:
                continue
            for z in ZONES:
                d = self.model[w][z]
                if d:
                    lo, hi = min(d), max(d)
                    self.read_check(w, z, lo - 3, hi - lo + 7, "final")


def render(parts):
    return "[" + ", ".join(p.hex() if isinstance(p, bytes) else "%s:%d" % (p, getattr(p, "size", 0)) for p in parts) + "]"


def run_history(hist):
    from vlib.runner import bucket_of_exception

    mdl = Model()
    try:
        for op in hist:
            mdl.apply(op)
        mdl.final()
    except Violation as v:
        return (v.bucket, v.detail), mdl
    except R.Inconclusive:
        return None, mdl
    except Exception as x:
        return (bucket_of_exception("raise:%s" % hist[len(mdl.hist) - 1]["op"], x), repr(x)), mdl
    return None, mdl


FAIL = {}


def make_machine(part):
    from hypothesis import strategies as st
    from hypothesis.stateful import RuleBasedStateMachine, rule, precondition

    offs = st.integers(-4, 44)
    zones = st.sampled_from([0, 0, 0, 1, 2])
    maps = st.sampled_from(["A", "A", "B"])

    class Machine(RuleBasedStateMachine):
        def __init__(self):
            RuleBasedStateMachine.__init__(self)
            self.m = Model()

        def do(self, op):
            try:
                self.m.apply(op)
            except Violation:
                FAIL["hist"] = list(self.m.hist)
                raise
            except Exception:
                FAIL["hist"] = list(self.m.hist)
                raise

        @rule(map=maps, zone=zones, off=offs, data=st.binary(min_size=1, max_size=16))
        def write_raw(self, map, zone, off, data):
            self.do(dict(op="write", map=map, zone=zone, off=off, kind="raw", hex=data.hex()))

        @rule(map=maps, zone=zones, off=offs, kind=st.sampled_from(["cst", "reg", "reg", "sum", "xor", "slc"]),
              size=st.sampled_from([8, 16, 24, 32, 64, 128, 40]), v=st.integers(0, (1 << 128) - 1), endian=st.sampled_from([1, -1]))
        def write_exp(self, map, zone, off, kind, size, v, endian):
            self.do(dict(op="write", map=map, zone=zone, off=off, kind=kind, size=size, v=v, endian=endian))

        @rule(map=maps, zone=zones, off=st.integers(-8, 50), n=st.integers(1, 24))
        def read(self, map, zone, off, n):
            self.do(dict(op="read", map=map, zone=zone, off=off, len=n))

        @rule()
        def copy(self):
            self.do(dict(op="copy"))

        @rule()
        def swapcopy(self):
            self.do(dict(op="swapcopy"))

        @rule(map=maps)
        def restruct(self, map):
            self.do(dict(op="restruct", map=map))

        @rule(map=maps, zone=zones, delta=st.integers(-8, 8))
        def shift(self, map, zone, delta):
            self.do(dict(op="shift", map=map, zone=zone, delta=delta))

        @rule()
        def merge(self):
            self.do(dict(op="merge", map="A"))

        @rule(map=maps)
        def pickle_(self, map):
            self.do(dict(op="pickle", map=map))

        def teardown(self):
            try:
                self.m.final()
            except Exception:
                FAIL["hist"] = list(self.m.hist)
                raise
            h = self.m.hist
            nt = self.m.seam_reads > 0 or self.m.after_copy_reads > 0
            part.case(h, nt, h[:10])
            part.count("steps", len(h))
            part.count("seam_reads", self.m.seam_reads)
            part.count("reads_after_copy_and_write", self.m.after_copy_reads)

    return Machine


def run_shard(shard, tier, seed):
    import hypothesis
    from hypothesis import settings, HealthCheck, Phase
    from hypothesis.stateful import run_state_machine_as_test

    part = Partial()
    Machine = make_machine(part)
    FAIL.clear()
    s = settings(max_examples=NMACH[tier], stateful_step_count=STEPS[tier], deadline=None, database=None,
                 report_multiple_bugs=False, suppress_health_check=list(HealthCheck), print_blob=False,
                 phases=[Phase.generate])
    try:
        run_state_machine_as_test(hypothesis.seed(shard_seed(seed, shard["sub"]))(Machine), settings=s)
    except Exception as x:
        hist = FAIL.get("hist")
        if not hist:
            raise
        r, _ = run_history(hist)
        if r is None:
            raise
        part.fail(r[0], dict(hist=hist), r[1])
    return part


def replay(case):
    r, _ = run_history(case["hist"])
    return r


def shrink(case, bucket):
    from vlib.shrink import ddmin_list

    def fails(h):
        r, _ = run_history(h)
        return r is not None and r[0] == bucket

    h = case["hist"]
    if not fails(h):
        return case
    return dict(hist=ddmin_list(h, fails, 300))
