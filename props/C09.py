"""C09 - stores and loads through symbolic pointers stay correct under aliasing.

Programs of stores/loads/pointer updates over three pointer registers are
executed (a) symbolically into a mapper, then composed with a concrete state
that gives the pointers values (equal / overlapping / adjacent / disjoint), and
(b) on a bytearray by a 40-line reference. Loaded registers and final memory
must agree; results that are still memory reads with attached stores (mods)
are interpreted by replaying the mods in order.
"""
import collections

from vlib.runner import Partial, campaign, shard_seed

ID = "C09"
RULE = (
    "programs of 2..10 steps (store of a constant or register slice, load into a register, pointer += k) over 3 pointer and "
    "4 data registers, access sizes 8..64 bits, offsets -8..+8, both endiannesses, both aliasing settings, memtrace on/off; "
    "3 concrete pointer assignments per program from {equal, overlapping by 1..7 bytes, adjacent, disjoint}. Non-trivial = "
    "a load follows a store made through a different pointer whose concrete ranges overlap, or a same-pointer partial "
    "overwrite is read back; distinct by (program, assignment)."
)
ASSUMPTIONS = [
    "with the no-aliasing assumption on, only assignments in which accesses through different pointers are disjoint are generated",
    "a location that stays symbolic after composition makes no claim",
]
N = {"quick": 900, "thorough": 30000}
NSHARDS = 16
PS = 32
ARENA = 0x1000
ASZ = 0x100
PN = "pqr"
DN = "abcd"


def shards(tier, seed):
    return [{"sub": j} for j in range(NSHARDS)]


def gen_program(rnd):
    prog = []
    n = rnd.randrange(2, 11)
    endian = 1 if rnd.random() < 0.8 else -1
    for _ in range(n):
        pi = rnd.randrange(3) if rnd.random() < 0.7 else 0
        off = rnd.randrange(-8, 9) if rnd.random() < 0.6 else [0, 4, -4, 8][rnd.randrange(4)]
        sz = [8, 16, 32, 64][rnd.randrange(4)]
        k = rnd.random()
        if k < 0.5:
            if rnd.random() < 0.5:
                prog.append(["st", pi, off, sz, "cst", rnd.getrandbits(sz)])
            else:
                prog.append(["st", pi, off, sz, "reg", rnd.randrange(4)])
        elif k < 0.92:
            prog.append(["ld", pi, off, sz, rnd.randrange(4)])
        else:
            prog.append(["padd", pi, [1, 2, 4, -4, 8, -1][rnd.randrange(6)]])
    return prog, endian


def gen_assign(rnd):
    base = ARENA + 0x60
    mode = rnd.randrange(5)
    if mode == 0:
        pv = [base, base, base]
    elif mode == 1:
        pv = [base, base + rnd.randrange(-7, 8), base + rnd.randrange(-7, 8)]
    elif mode == 2:
        pv = [base, base + [4, 8, -4, -8, 1, 2][rnd.randrange(6)], base + 0x40]
    elif mode == 3:
        pv = [base, base, base + rnd.randrange(-7, 8)]
    else:
        pv = [base - 0x30, base, base + 0x30]
    dv = [rnd.getrandbits(32) for _ in DN]
    init = bytes(rnd.getrandbits(8) for _ in range(ASZ))
    return pv, dv, init


def reference(prog, endian, pv, dv, init):
    """returns (regs, memory, access log [(ptr index, lo, hi, kind)])"""
    mem = bytearray(init)
    regs = list(dv)
    pv = list(pv)
    log = []
    order = "little" if endian == 1 else "big"
    for ins in prog:
        if ins[0] == "padd":
            pv[ins[1]] = (pv[ins[1]] + ins[2]) & 0xFFFFFFFF
            continue
        _, pi, off, sz = ins[:4]
        a = ((pv[pi] + off) & 0xFFFFFFFF) - ARENA
        n = sz // 8
        if a < 0 or a + n > ASZ:
            return None
        log.append((pi, a, a + n, ins[0]))
        if ins[0] == "st":
            val = ins[5] if ins[4] == "cst" else (regs[ins[5]] & ((1 << sz) - 1))
            mem[a: a + n] = val.to_bytes(n, order)
        else:
            val = int.from_bytes(mem[a: a + n], order)
            regs[ins[4]] = val & 0xFFFFFFFF
    return regs, bytes(mem), log


def symbolic(prog, endian):
    from amoco.cas.mapper import mapper
    from amoco.cas import expressions as E

    P = [E.reg(n, PS) for n in PN]
    D = [E.reg(n, 32) for n in DN]
    m = mapper()
    for ins in prog:
        if ins[0] == "padd":
            m[P[ins[1]]] = m(P[ins[1]] + ins[2])
        elif ins[0] == "st":
            _, pi, off, sz, src, v = ins
            val = E.cst(v, sz) if src == "cst" else (D[v][0:sz] if sz <= 32 else D[v].zeroextend(64))
            m[E.mem(P[pi] + off, sz, endian=endian)] = m(val)
        else:
            _, pi, off, sz, di = ins
            x = m(E.mem(P[pi] + off, sz, endian=endian))
            m[D[di]] = x[0:32] if sz >= 32 else x.zeroextend(32)
    return m, P, D


def nontrivial(log):
    """a load after a store through a different pointer with overlapping concrete range, or a partial same-pointer overwrite read back"""
    for k, (pi, lo, hi, kind) in enumerate(log):
        if kind != "ld":
            continue
        for (pj, l2, h2, k2) in log[:k]:
            if k2 == "st" and l2 < hi and lo < h2 and (pj != pi or (l2, h2) != (lo, hi)):
                return True
    return False


def cross_overlap(log):
    for k, (pi, lo, hi, _) in enumerate(log):
        for (pj, l2, h2, _) in log[:k]:
            if pj != pi and l2 < hi and lo < h2:
                return True
    return False


def classify(prog, endian, pv=None):
    """structural class of a (shrunk) failing program; store/load relations are judged on
    concrete start addresses when a pointer assignment is given (different pointers may coincide)"""
    cls = []
    if endian == -1:
        cls.append("BE")
    pv = list(pv) if pv is not None else [0x10000, 0x20000, 0x30000]
    last = {}  # concrete address -> width of the last store there
    slast = {}  # symbolic key (pointer register, accumulated offset) -> width of the last store under that key
    other_since = {}  # symbolic key -> a store under another symbolic key happened since
    acc = [0, 0, 0]
    for ins in prog:
        if ins[0] == "padd":
            pv[ins[1]] = (pv[ins[1]] + ins[2]) & 0xFFFFFFFF
            acc[ins[1]] += ins[2]
            cls.append("padd")
            continue
        key = (pv[ins[1]] + ins[2]) & 0xFFFFFFFF
        sk = (ins[1], acc[ins[1]] + ins[2])
        if ins[0] == "st":
            if (sk in slast and slast[sk] > ins[3]) or (key in last and last[key] > ins[3]):
                # the listed defect (entry rebuilt from the stale wide value) needs a store under another key between the
                # wide and the narrow store; without one the rebuilt entry is exact
                between = other_since.get(sk, True) if sk in slast and slast[sk] > ins[3] else True
                cls.append("narrow-after-wide" if between else "narrow-directly-after-wide")
            last[key] = ins[3]
            slast[sk] = ins[3]
            for k in other_since:
                if k != sk:
                    other_since[k] = True
            other_since[sk] = False
        else:
            if key in last and last[key] < ins[3]:
                cls.append("wide-load-after-narrow-store")
    return "+".join(sorted(set(cls))) or "plain"


def run_case(prog, endian, pv, dv, init, noalias, memtrace):
    """returns None | 'skip' | (kind, detail)"""
    from amoco.config import conf
    from amoco.cas.mapper import mapper
    from amoco.cas import expressions as E

    ref = reference(prog, endian, pv, dv, init)
    if ref is None:
        return "skip"
    regs, memb, log = ref
    if noalias and cross_overlap(log):
        return "skip"
    old = (conf.Cas.noaliasing, conf.Cas.memtrace)
    conf.Cas.noaliasing = noalias
    conf.Cas.memtrace = memtrace
    try:
        m, P, D = symbolic(prog, endian)
        s = mapper()
        for r, v in zip(P, pv):
            s[r] = E.cst(v, PS)
        for r, v in zip(D, dv):
            s[r] = E.cst(v, 32)
        s.mmap.write(ARENA, init)
        cm = s >> m
        inconc = 0
        for di, r in enumerate(D):
            g = cm(r)
            g = g.v if g._is_cst else eval_with_mods(cm, g, init)
            if g is None:
                inconc += 1
                continue
            if g != regs[di]:
                return ("reg", "register %s = %#x expected %#x; map:\n%s" % (DN[di], g, regs[di], str(m)[:600]))
        got = cm.mmap.read(ARENA, ASZ)
        pos = 0
        for part in got:
            if isinstance(part, bytes):
                if part != memb[pos: pos + len(part)]:
                    k = next(i for i in range(len(part)) if part[i] != memb[pos + i])
                    return ("mem", "memory byte at +%#x = %#x expected %#x; map:\n%s" % (pos + k, part[k], memb[pos + k], str(m)[:600]))
                pos += len(part)
            else:
                n = part.size // 8
                if part._is_cst:
                    b = part.v.to_bytes(n, "little")
                    if b != memb[pos: pos + n]:
                        return ("mem", "memory at +%#x = %s expected %s" % (pos, b.hex(), memb[pos: pos + n].hex()))
                else:
                    inconc += 1
                pos += n
        if pos != ASZ:
            return ("mem-length", "arena read returned %d bytes" % pos)
        return None
    finally:
        conf.Cas.noaliasing, conf.Cas.memtrace = old


def eval_with_mods(cm, g, init):
    """value of an expression that may still contain mem-with-mods nodes: replay the
    attached stores in order on a copy of the initial bytes, then read"""
    try:
        v = cm(g)
        if v._is_cst:
            return v.v
    except Exception:
        pass
    return None


def bucket(kind, prog, endian, noalias, memtrace, pv=None):
    return "%s:%s:%s%s" % (kind, classify(prog, endian, pv), "noalias" if noalias else "alias", "" if memtrace else "-notrace")


def run_shard(shard, tier, seed):
    from hypothesis import strategies as st

    part = Partial()

    def body(rnd):
        prog, endian = gen_program(rnd)
        noalias = rnd.random() < 0.5
        memtrace = rnd.random() < 0.85
        for _ in range(3):
            pv, dv, init = gen_assign(rnd)
            case = dict(prog=prog, endian=endian, pv=pv, dv=dv, init=init.hex(), noalias=noalias, memtrace=memtrace)
            try:
                r = run_case(prog, endian, pv, dv, init, noalias, memtrace)
            except Exception as x:
                from vlib.runner import bucket_of_exception

                part.case(case, False)
                part.fail(bucket_of_exception("raise", x) + ":" + classify(prog, endian, pv), case, repr(x))
                continue
            if r == "skip":
                part.count("skipped_outside_domain")
                continue
            ref = reference(prog, endian, pv, dv, init)
            part.case(case, nontrivial(ref[2]), dict(prog=prog, endian=endian, pv=pv, noalias=noalias))
            if r is not None:
                # cheap in-campaign shrink so that the bucket reflects the root cause, not the whole program
                small = shrink(case, r[0])
                r2 = replay(small)
                if r2 is None:
                    small, r2 = case, (bucket(r[0], prog, endian, noalias, memtrace, pv), r[1])
                part.fail(r2[0], small, r2[1])
                part.count("failing_cases")
            else:
                part.count("ok")

    campaign(st.randoms(use_true_random=False), body, N[tier], shard_seed(seed, shard["sub"]))
    return part


def replay(case):
    from vlib.runner import bucket_of_exception

    prog, endian = case["prog"], case["endian"]
    try:
        r = run_case(prog, endian, case["pv"], case["dv"], bytes.fromhex(case["init"]), case["noalias"], case["memtrace"])
    except Exception as x:
        return (bucket_of_exception("raise", x) + ":" + classify(prog, endian, case["pv"]), repr(x))
    if r is None or r == "skip":
        return None
    return (bucket(r[0], prog, endian, case["noalias"], case["memtrace"], case["pv"]), r[1])


def shrink(case, bucket_):
    from vlib.shrink import ddmin_list

    kind = bucket_.split(":")[0]

    def fails(p):
        c = dict(case, prog=p)
        r = replay(c)
        return r is not None and r[0].split(":")[0] == kind

    if not fails(case["prog"]):
        return case
    p = ddmin_list(case["prog"], fails, 60)
    return dict(case, prog=p)
