"""C10 - symbolic results do not depend on analysis history.

Per ISA: a block B (1..4 instructions) and a history H of other calls
(decodes, mapper(instrs), evaluations on concrete states, compositions,
formatting), executed in one process:
  build map(B), evaluate (e0); run H; evaluate the *old* map (e2); build
  map(B) again and evaluate (e1)
Everything that ran earlier in the process is just more history. A difference
is reported only after it reproduces from a fresh interpreter (replay).
Required e0 == e1 == e2 by denotation (constants obtained by evaluating the
map on 3 concrete states; symbolic leftovers make no claim; an exception that
appears in only one of them is a difference).
"""
from vlib import isa as visa
from vlib.runner import Partial, campaign, shard_seed
from props import C02

ID = "C10"
RULE = (
    "per ISA module with semantics: block B of 1..4 and history H of 3..24 instructions, all from the dependency-biased "
    "generator (common integer instructions on a small register set, so that H touches registers B reads; compares, "
    "shifts, multiplies, carries included), both aliasing settings; H = decode + mapper([i]) + evaluation of that map on a "
    "concrete state + str(i). Non-trivial = H executes >= 1 instruction that writes or reads a register B reads; distinct "
    "by (isa, B bytes, H bytes)."
)
ASSUMPTIONS = [
    "the first build of B in the case is the reference; a reported case must reproduce in a fresh interpreter (pristine replay), where that first build is history-free",
    "maps are compared by denotation on 3 concrete states; a location that stays symbolic makes no claim",
]
NCASE = {"quick": 120, "thorough": 6000}


def shards(tier, seed):
    return [{"isa": n} for n in visa.with_semantics() if "wasm" not in n and "dwarf" not in n]


def build_block(I, seq):
    from amoco.cas.mapper import mapper

    ins = []
    a = 0x1000
    for b in seq:
        i = I.decode(b, address=a, guard=5)
        if i is None:
            return None, None
        ins.append(i)
        a += i.length
    with visa.time_guard(20):
        return mapper(ins), ins


def evaluate(I, M, states):
    """tuple per state of per-register observations: int | None | 'exc:Type'"""
    cpu = I.cpu
    regs = C02.base_registers(cpu)
    arena = C02.arena_of(cpu)
    out = []
    for st in states:
        try:
            with visa.time_guard(20):
                A = C02.make_sigma(cpu, regs, st, arena) >> M
        except visa.HarnessTimeout:
            out.append(None)
            continue
        except Exception as x:
            out.append("exc:%s" % type(x).__name__)
            continue
        row = []
        for r in regs:
            try:
                v = A(r)
                row.append(v.v if v._is_cst else None)
            except Exception as x:
                row.append("exc:%s" % type(x).__name__)
        # sub-register reads of the old map (unaligned reads expose stale bookkeeping)
        for r in regs[:4]:
            try:
                if r.size >= 16:
                    v = M(r[8:16]) if len(M) else None
                    row.append(v.size if v is not None else None)
            except Exception as x:
                row.append("exc:%s" % type(x).__name__)
        out.append(tuple(row))
    return tuple(out)


def structure(I, M):
    """observations of the map object itself that no analysis of other code may change: which
    locations it writes, which memory bytes it covers, and sub-register reads of its entries"""
    cpu = I.cpu
    regs = C02.base_registers(cpu)
    out = []
    try:
        out.append(("entries", tuple(sorted(str(loc) for loc, v in M))))
    except Exception as x:
        out.append(("entries", "exc:%s" % type(x).__name__))
    try:
        cov = []
        for key, z in M.mmap._zones.items():
            rs = sorted((o.vaddr, o.vaddr + len(o.data)) for o in z._map)
            merged = []
            for lo, hi in rs:
                if merged and lo <= merged[-1][1]:
                    merged[-1][1] = max(merged[-1][1], hi)
                else:
                    merged.append([lo, hi])
            cov.append((str(key), tuple(map(tuple, merged))))
        out.append(("coverage", tuple(sorted(cov))))
    except Exception as x:
        out.append(("coverage", "exc:%s" % type(x).__name__))
    for r in regs[:6]:
        if r.size >= 16:
            for lo, hi in ((0, 8), (8, 16), (0, 16)):
                try:
                    v = M(r[lo:hi]) if len(M) else r[lo:hi]
                    out.append(("%s[%d:%d]" % (r, lo, hi), v.size))
                except Exception as x:
                    out.append(("%s[%d:%d]" % (r, lo, hi), "exc:%s" % type(x).__name__))
    return tuple(out)


def run_history(I, H, state, env=None):
    from amoco.cas.mapper import mapper

    cpu = I.cpu
    regs = C02.base_registers(cpu)
    arena = C02.arena_of(cpu)
    prev = None
    for b in H:
        try:
            i = I.decode(b, address=0x4000, guard=5)
            if i is None:
                continue
            with visa.time_guard(20):
                m = mapper([i])
                A = C02.make_sigma(cpu, regs, state, arena) >> m
                for r in regs[:6]:
                    A(r)
                if prev is not None:
                    _ = prev >> m
                    prev.use()
                if env is not None:
                    # the block map is used as the environment of later maps (composition,
                    # evaluation of their loads in it): this must not write into it
                    _ = env >> m
                    for r in regs[:4]:
                        env(m(r)) if len(m) else None
                prev = m
            str(i)
        except (Exception, visa.HarnessTimeout):
            I.reset_decoder()


def case_children(I, case):
    """in-process history: build map(B), evaluate (e0); run H; evaluate the old map (e2); build
    map(B) again, evaluate (e1). Everything that ran earlier in this process is just more history:
    any difference is a violation; a reported case must reproduce in a fresh interpreter."""
    from amoco.config import conf
    from props.C02 import sign_dependent

    B = [bytes.fromhex(h) for h in case["B"]]
    H = [bytes.fromhex(h) for h in case["H"]]
    states = case["states"]
    old = conf.Cas.noaliasing
    conf.Cas.noaliasing = case["noalias"]
    I.set_mode(case["mode"], case["endian"])
    try:
        try:
            M, ins = build_block(I, B)
        except (Exception, visa.HarnessTimeout):
            I.reset_decoder()
            return None
        if M is None:
            return None
        s0 = structure(I, M)
        e0 = evaluate(I, M, states)
        s1 = structure(I, M)
        sd = []
        for r in C02.base_registers(I.cpu):
            try:
                sd.append(bool(sign_dependent(M[r])))
            except Exception:
                sd.append(False)
        run_history(I, H, states[0], env=M)
        s2 = structure(I, M)
        e2 = evaluate(I, M, states)
        try:
            M1, ins = build_block(I, B)
        except (Exception, visa.HarnessTimeout):
            I.reset_decoder()
            M1 = None
        if M1 is None:
            return ("B-builds-only-before-H",)
        e1 = evaluate(I, M1, states)
        return e0, e2, e1, sd, (s0, s1, s2)
    finally:
        conf.Cas.noaliasing = old
        I.reset_mode()


def differ(x, y, sd):
    """first differing observation between two evaluations: (state index, column, a, b, signdep) | None"""
    for k, (a, b) in enumerate(zip(x, y)):
        if a is None or b is None:
            continue
        if isinstance(a, str) or isinstance(b, str):
            if a != b:
                return (k, -1, a, b, False)
            continue
        for c, (p, q) in enumerate(zip(a, b)):
            if p is None or q is None:
                continue
            if p != q:
                return (k, c, p, q, sd[c] if c < len(sd) else False)
    return None


def check_case(I, case):
    """returns None | 'skip' | (bucket, detail)"""
    r = case_children(I, case)
    if r is None:
        return "skip"
    if len(r) == 1:
        return ("build-depends-on-history:%s" % I.short, "B builds before H but not after it")
    e0, e2, e1, sd, (s0, s1, s2) = r
    for a, b, what in ((s0, s1, "evaluating it on concrete states"), (s1, s2, "analysing other instructions")):
        if a != b:
            df = [(x, y) for x, y in zip(a, b) if x != y][:2]
            return ("old-map-structure:%s" % I.short, "the block map changed by %s: %r; B=%s H=%s" % (what, df, case["B"], case["H"]))
    d = differ(e0, e2, sd)
    if d is not None:
        cls = "signdep" if d[4] else ("exception" if isinstance(d[2], str) or isinstance(d[3], str) else "value")
        return ("old-map-changed:%s:%s" % (I.short, cls), "state %d observation %d: before H %r, after H %r; B=%s H=%s" % (d[0], d[1], d[2], d[3], case["B"], case["H"]))
    d = differ(e0, e1, sd)
    if d is not None:
        cls = "signdep" if d[4] else ("exception" if isinstance(d[2], str) or isinstance(d[3], str) else "value")
        return ("built-after-differs:%s:%s" % (I.short, cls), "state %d observation %d: map built first %r, built after H %r; B=%s H=%s" % (d[0], d[1], d[2], d[3], case["B"], case["H"]))
    return None


def run_shard(shard, tier, seed):
    from hypothesis import strategies as st

    part = Partial()
    I = visa.load(shard["isa"])
    cpu = I.cpu
    regs = C02.base_registers(cpu)
    arena = C02.arena_of(cpu)
    mode, e = [(m, e) for (m, e) in I.modes() if e == 1 or not I.is_arm][0]
    n = NCASE[tier] * (3 if I.is_x86 or "riscv" in I.name else 1)

    def body(rnd):
        def enc():
            for _ in range(6):
                b = I.gen_instr_bytes(rnd, mode, e)
                if len(b) >= 1:
                    return b
            return b

        def junk():
            # undecodable / truncated / prefix-only strings: failed decodes are part of an analysis history too
            b = I.gen_bytes(rnd, mode, e)
            if I.is_x86 and rnd.random() < 0.5:
                pfx = bytes([[0x66, 0x67, 0xF2, 0xF3, 0x48, 0x41][rnd.randrange(6 if I.is_x64 else 4)]])
                b = pfx + [b"\x0f\xff", b"\xd6", b"\xff\xff", b"", b"\x0f"][rnd.randrange(5)] + b[:rnd.randrange(0, 3)]
            return b

        B = [enc().hex() for _ in range(rnd.randrange(1, 5))]
        H = [(junk() if rnd.random() < 0.2 else enc()).hex() for _ in range(rnd.randrange(3, 25))]
        states = []
        for _ in range(3):
            s = C02.gen_state(rnd, regs, arena)
            for k in list(s["regs"])[:8]:
                if rnd.random() < 0.4:
                    s["regs"][k] |= 1 << (dict((r.ref, r.size) for r in regs)[k] - 1)  # sign bit set
            states.append(s)
        case = dict(isa=I.name, mode=mode, endian=e, B=B, H=H, states=states, noalias=rnd.random() < 0.6)
        r = check_case(I, case)
        if r == "skip":
            part.count("skip:block-does-not-build")
            return
        part.case(dict(isa=I.name, B=B, H=H), True, dict(isa=I.short, B=B, H=H[:6], noalias=case["noalias"]))
        if r is not None:
            part.fail(r[0], case, r[1])

    campaign(st.randoms(use_true_random=False), body, n, shard_seed(seed, I.name))
    return part


_ISA = {}


def replay(case):
    I = _ISA.get(case["isa"]) or _ISA.setdefault(case["isa"], visa.load(case["isa"]))
    r = check_case(I, case)
    return None if r in (None, "skip") else r


def shrink(case, bucket):
    from vlib.shrink import ddmin_list

    I = _ISA.get(case["isa"]) or _ISA.setdefault(case["isa"], visa.load(case["isa"]))

    def fails(h):
        r = check_case(I, dict(case, H=h))
        return r not in (None, "skip") and r[0] == bucket

    if not fails(case["H"]):
        return case
    return dict(case, H=ddmin_list(case["H"], fails, 30))
