"""C11 - decoding has no memory of earlier calls.

Oracle: the outcome of decoding string k at position k of a call sequence on
the module's one disassembler object must equal the outcome of decoding that
string alone in a fresh fork of a process that has only imported the module.
"""
from vlib import isa as visa
from vlib.pristine import in_child, ChildFailure
from vlib.runner import Partial, campaign, shard_seed

ID = "C11"
HISTORY_IS_VIOLATION = True
RULE = (
    "sequences of 2..12 decode calls on one disassembler, drawn from a per-ISA pool of strings of the classes valid / "
    "undecodable / prefix-only / prefix+undecodable / prefix+truncated / raising; the reference outcome of every string is "
    "the same at every occurrence in the history (drawn sequences are executed back to back as one call history in a forked child) and, for a sample, the one obtained alone in a fresh fork; every disagreement is confirmed against true alone references before it is reported. Non-trivial = a call that ends abnormally (None or exception) after at least one prefix "
    "spec matched, or that raises, is followed later in the sequence by a string that decodes alone; distinct by "
    "(isa, mode, endian, sequence)."
)
ASSUMPTIONS = [
    "a forked copy of a process that only imported the cpu module is the 'fresh' reference state",
    "outcome = instruction fingerprint | None | exception type",
]
NSEQ = {"quick": (600, 150), "thorough": (40000, 6000)}  # (prefix ISAs, others)
POOL = {"quick": 220, "thorough": 2000}


def shards(tier, seed):
    return [{"isa": n} for n in visa.all_names()]


def outcome(I, b):
    try:
        i = I.decode(b, guard=3)
        fp = visa.fingerprint(i)
    except visa.HarnessTimeout:
        return ("TIMEOUT",)
    except Exception as x:
        fp = ("EXC", type(x).__name__)
    pend = getattr(I.d, "_disassembler__i", None) is not None
    return (fp, pend)


def alone(I, b, mode, e):
    def f():
        I.set_mode(mode, e)
        return outcome(I, b)

    return in_child(f, timeout=20)


def run_seq(I, seq, mode, e):
    def f():
        I.set_mode(mode, e)
        return [outcome(I, b) for b in seq]

    return in_child(f, timeout=60)


def build_pool(I, rnd, mode, e, n=1):
    """strings by class; classification is done in a forked child (never in this process)"""
    S = I.specs[mode]
    pfx_specs = [s for s in S if s.pfx is True]
    cands = []
    for _ in range(n):
        k = rnd.random()
        b = I.gen_bytes(rnd, mode, e)
        if pfx_specs and k < 0.55:
            npfx = rnd.randrange(1, 4)
            if rnd.random() < 0.12:
                # a run of prefixes as long as / longer than the decoder's fetch window
                ml = I.d.maxlen
                npfx = [ml - 1, ml, ml + 1, 2 * ml][rnd.randrange(4)]
            p = b"".join(I.word_bytes(pfx_specs[rnd.randrange(len(pfx_specs))], rnd, e) for _ in range(max(1, npfx)))
            kk = rnd.random()
            if kk < 0.2:
                b = p  # prefix only
            elif kk < 0.5:
                b = p + bytes(rnd.getrandbits(8) for _ in range(rnd.randrange(1, 4)))  # prefix + junk (often undecodable)
            elif kk < 0.75:
                b = (p + b)[: len(p) + rnd.randrange(0, 3)]  # prefix + truncated
            else:
                b = p + b
        cands.append(b)
    return cands


def classify(I, cands, mode, e):
    """alone outcome of every candidate, each in its own fresh fork"""
    out = []
    for b in cands:
        try:
            out.append(alone(I, b, mode, e))
        except ChildFailure as x:
            out.append(("TIMEOUT",))
    return out


def check_seq(I, seq, ref, mode, e):
    """returns None | (bucket, detail)"""
    try:
        got = run_seq(I, seq, mode, e)
    except ChildFailure as x:
        return None
    for k, (g, r) in enumerate(zip(got, ref)):
        if g == ("TIMEOUT",) or r == ("TIMEOUT",):
            return None
        if g[0] != r[0]:
            cls = "stale-prefix" if (isinstance(g[0], tuple) and g[0] and g[0][0] != "EXC" and isinstance(r[0], tuple) and r[0][0] != "EXC" and g[0][0].endswith(r[0][0]) and g[0][0] != r[0][0]) else "outcome-differs"
            prev = seq[k - 1].hex() if k else ""
            return ("%s:%s" % (cls, I.short), "call %d bytes=%s after %s: in sequence %r, alone %r" % (k, seq[k].hex(), prev, g[0] if g[0] is None else g[0][:3], r[0] if r[0] is None else r[0][:3]))
        if g[1] and not (g[0] is not None and g[0][0] == "EXC"):
            return ("pending-after-return:%s" % I.short, "call %d bytes=%s returned with a pending prefix instruction" % (k, seq[k].hex()))
        if g[1] and g[0] is not None and g[0][0] == "EXC":
            return ("pending-after-exception:%s" % I.short, "call %d bytes=%s raised %s and left a pending prefix instruction" % (k, seq[k].hex(), g[0][1]))
    return None


WINDOW = 16
ALONE = {"quick": (24, 6), "thorough": (400, 60)}  # strings per mode decoded alone in their own fork (prefix ISAs, others)


def run_shard(shard, tier, seed):
    """per mode: (1) a pool of strings tagged by syntactic class; (2) Hypothesis
    draws call sequences over the pool; they are executed back to back as one
    long call history on the one disassembler object in a single forked child;
    (3) oracle: every occurrence of a string in the history has the same
    outcome, no call returns with a pending prefix, and for a sample of the
    strings that outcome equals the one obtained alone in a fresh fork.
    (4) every disagreement is re-run as a short window against true alone
    references (one fork per string) before it is reported."""
    from hypothesis import strategies as st

    part = Partial()
    I = visa.load(shard["isa"])
    nseq = NSEQ[tier][0 if I.has_prefix else 1]
    nalone = ALONE[tier][0 if (I.has_prefix or I.is_wasm) else 1]
    for (mode, e) in I.modes():
        pool_holder = {}

        def mkpool(rnd, mode=mode, e=e):
            pool_holder.setdefault("cands", []).extend(build_pool(I, rnd, mode, e))

        campaign(st.randoms(use_true_random=False), mkpool, POOL[tier] if I.has_prefix else POOL[tier] // 3, shard_seed(seed, I.name, mode, e, "pool"))
        cands = sorted(set(pool_holder["cands"]))
        if len(cands) < 2:
            continue
        allk = list(range(len(cands)))
        idx = st.lists(st.sampled_from(allk), min_size=2, max_size=12)
        seqs = []

        def body(ix, mode=mode, e=e):
            seqs.append(list(ix))

        campaign(idx, body, nseq // len(I.modes()) + 1, shard_seed(seed, I.name, mode, e))
        hist = [k for s_ in seqs for k in s_]
        part.count("calls_in_history", len(hist))
        try:
            got = run_seq(I, [cands[k] for k in hist], mode, e)
        except ChildFailure as x:
            part.count("inconclusive_history_child_failed")
            continue
        # group outcomes by string
        by = {}
        for pos, (g, k) in enumerate(zip(got, hist)):
            if g == ("TIMEOUT",):
                continue
            by.setdefault(k, {}).setdefault(g, []).append(pos)
        # sampled alone references (each in its own fresh fork)
        sample = [k for k in sorted(by)][:: max(1, len(by) // nalone)][:nalone]
        alone_ref = {}
        for k in sample:
            r = classify(I, [cands[k]], mode, e)[0]
            if r != ("TIMEOUT",):
                alone_ref[k] = r
        part.count("alone_references", len(alone_ref))
        abnormal = {k for k, d in by.items() if any(g[0] is None or g[0][0] == "EXC" for g in d)}
        valid = {k for k, d in by.items() if any(g[0] is not None and g[0][0] != "EXC" for g in d)}
        part.count("pool_valid", len(valid))
        part.count("pool_abnormal", len(abnormal))
        for ix in seqs:
            nt = any(k in abnormal and any(j in valid for j in ix[p + 1:]) for p, k in enumerate(ix))
            case = dict(isa=I.name, mode=mode, endian=e, seq=[cands[k].hex() for k in ix])
            part.case(case, nt, case)
        suspicious = []
        for k, d in by.items():
            outs = sorted(d.items(), key=lambda kv: -len(kv[1]))
            ref_out = alone_ref.get(k, outs[0][0])
            for g, poss in outs:
                if g[0] != ref_out[0] or g[1]:
                    suspicious.append(poss[0])
        suspicious.sort()
        part.count("suspicious_calls", len(suspicious))
        reported = 0
        for pos in suspicious[:6]:
            for w in (2, WINDOW, pos + 1):
                lo = max(0, pos + 1 - w)
                sub = hist[lo: pos + 1]
                seq = [cands[j] for j in sub]
                res = check_seq(I, seq, classify(I, seq, mode, e), mode, e)
                if res is not None:
                    part.fail(res[0], dict(isa=I.name, mode=mode, endian=e, seq=[b.hex() for b in seq]), res[1])
                    break
            else:
                part.count("suspicion_not_confirmed")
    return part


def replay(case):
    I = visa.load(case["isa"])
    seq = [bytes.fromhex(h) for h in case["seq"]]
    ref = classify(I, seq, case["mode"], case["endian"])
    return check_seq(I, seq, ref, case["mode"], case["endian"])


def shrink(case, bucket):
    from vlib.shrink import ddmin_list

    I = visa.load(case["isa"])
    seq = [bytes.fromhex(h) for h in case["seq"]]
    cache = {}

    def fails(s):
        for b in s:
            if b not in cache:
                cache[b] = classify(I, [b], case["mode"], case["endian"])[0]
        r = check_seq(I, s, [cache[b] for b in s], case["mode"], case["endian"])
        return r is not None and r[0] == bucket

    seq = ddmin_list(seq, fails, 60)
    c = dict(case)
    c["seq"] = [b.hex() for b in seq]
    return c
