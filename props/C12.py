"""C12 - every expression has the width its construction dictates.

The C01 tree strategy extended with mem leaves and vec nodes; three kinds of
environment (concrete, partial, symbolic). Oracle: size_of(tree spec) on
e.size, e.simplify(**opts).size, m(e).size, e[i:j].size, and recursively on
every node reachable in each result (operand widths agree, compare = 1 bit,
** doubles, vec members agree, comp parts tile [0,size) exactly).
"""
import sys
import traceback

from vlib import refsem as R
from vlib.runner import Partial, campaign, shard_seed

ID = "C12"
RULE = (
    "trees from the C01 grammar plus memory leaves (byte-multiple widths) and vec nodes, widths 1..128, complexity "
    "threshold 0/8/30; rewrite paths: construction, simplify(), simplify(bitslice), simplify(widening), eval under a "
    "concrete, a partial and a symbolic environment, slicing of the result. Non-trivial = a rewrite fired (the result of "
    "a path is not the built object or prints differently) or the environment is partial/symbolic; distinct by tree spec."
)
ASSUMPTIONS = [
    "exceptions raised while building/simplifying are C01/C17 business and only counted here; C12 judges widths of results that exist",
]
N = {"quick": 1500, "thorough": 30000}
NSHARDS = 16


def shards(tier, seed):
    return [{"sub": j} for j in range(NSHARDS)]


def wellformed(e, path="", depth=0):
    """yields (kind, detail) for every width inconsistency reachable from e"""
    if depth > 60:
        return
    if e is None:
        return
    if not hasattr(e, "size"):
        yield ("not-exp", "%s: %r" % (path, type(e).__name__))
        return
    if e._is_top or not e._is_def:
        return
    if e._is_cst:
        if e.v >> e.size:
            yield ("cst-overflow", "%s: value %#x does not fit %d bits" % (path, e.v, e.size))
        return
    if e._is_slc:
        if e.size <= 0 or e.pos < 0 or e.pos + e.size > e.x.size:
            yield ("slc-range", "%s: [%d:%d] of %d bits" % (path, e.pos, e.pos + e.size, e.x.size))
        for y in wellformed(e.x, path + ".x", depth + 1):
            yield y
        return
    if e._is_reg:
        return
    if e._is_cmp:
        pos = 0
        for (lo, hi), p in sorted(e.parts.items()):
            if lo != pos:
                yield ("comp-gap" if lo > pos else "comp-overlap", "%s: part [%d:%d] after bit %d of %s" % (path, lo, hi, pos, e))
            if p.size != hi - lo:
                yield ("comp-part-size", "%s: part [%d:%d] holds %d bits" % (path, lo, hi, p.size))
            pos = max(pos, hi)
            for y in wellformed(p, path + "[%d:%d]" % (lo, hi), depth + 1):
                yield y
        if pos != e.size:
            yield ("comp-cover", "%s: parts cover %d of %d bits" % (path, pos, e.size))
        sm = getattr(e, "smask", None)
        if sm is not None:
            if len(sm) != e.size:
                yield ("comp-smask-len", "%s: smask has %d entries for %d bits" % (path, len(sm), e.size))
            else:
                for (lo, hi) in e.parts:
                    for b in range(max(lo, 0), min(hi, e.size)):
                        if sm[b] != (lo, hi):
                            yield ("comp-smask", "%s: bit %d maps to %r, not to its part (%d,%d)" % (path, b, sm[b], lo, hi))
                            break
        return
    if e._is_tst:
        if e.l.size != e.size or e.r.size != e.size:
            yield ("tst-branches", "%s: branches %d/%d bits in a %d-bit conditional" % (path, e.l.size, e.r.size, e.size))
        if getattr(e.tst, "size", 1) != 1:
            yield ("tst-cond", "%s: condition of %d bits" % (path, e.tst.size))
        for n, c in (("tst", e.tst), ("l", e.l), ("r", e.r)):
            for y in wellformed(c, path + "." + n, depth + 1):
                yield y
        return
    if e._is_eqn:
        s = e.op.symbol
        if e.op.unary:
            if e.r.size != e.size:
                yield ("uop-size", "%s: %s%d bits -> %d" % (path, s, e.r.size, e.size))
            for y in wellformed(e.r, path + ".r", depth + 1):
                yield y
            return
        t = e.op.type
        if t in (1, 2) and e.l.size != e.r.size:
            yield ("op-operands", "%s: %d %s %d" % (path, e.l.size, s, e.r.size))
        if t == 4:
            if e.size != 1:
                yield ("cmp-size", "%s: comparison of %d bits" % (path, e.size))
            if e.l.size != e.r.size:
                yield ("op-operands", "%s: %d %s %d" % (path, e.l.size, s, e.r.size))
        elif s == "**":
            if e.size != 2 * e.l.size:
                yield ("mul2-size", "%s: %d ** -> %d" % (path, e.l.size, e.size))
        elif e.size != e.l.size:
            yield ("op-size", "%s: %d %s -> %d" % (path, e.l.size, s, e.size))
        for n, c in (("l", e.l), ("r", e.r)):
            for y in wellformed(c, path + "." + n, depth + 1):
                yield y
        return
    if e._is_vec:
        for k, x in enumerate(e.l):
            if x.size != e.size:
                yield ("vec-member", "%s: member %d has %d bits in a %d-bit vec" % (path, k, x.size, e.size))
            for y in wellformed(x, path + ".l[%d]" % k, depth + 1):
                yield y
        return
    if e._is_mem:
        for y in wellformed(e.a.base, path + ".a.base", depth + 1):
            yield y
        return
    if e._is_ptr:
        for y in wellformed(e.base, path + ".base", depth + 1):
            yield y
        return


def exc_key(x):
    tb = traceback.extract_tb(sys.exc_info()[2])
    fr = [t for t in tb if "/amoco/" in t.filename]
    t = fr[-1] if fr else tb[-1]
    return "%s:%s" % (type(x).__name__, t.name)


def paths(t, envspec, cx, slices):
    """yields (path name, result expression | exception)"""
    from amoco.config import conf
    from amoco.cas.mapper import mapper
    from amoco.cas import expressions as E

    def fresh():
        return R.build(t)

    yield "build", fresh
    yield "simplify", lambda: fresh().simplify()
    yield "simplify-bitslice", lambda: fresh().simplify(bitslice=True)
    yield "simplify-widening", lambda: fresh().simplify(widening=True)
    # nodes made with the node constructor (no rewriting at construction), then simplified
    yield "raw-simplify", lambda: R.build(t, raw=True).simplify()
    yield "raw-simplify-bitslice", lambda: R.build(t, raw=True).simplify(bitslice=True)
    for name, binds in envspec.items():
        def ev(binds=binds):
            m = mapper()
            m[E.reg("zz_unused", 8)] = E.cst(0, 8)
            for k, (s, val) in binds.items():
                m[E.reg(k, s)] = E.cst(val, s) if isinstance(val, int) else R.build(val)
            return m(fresh())
        yield "eval-" + name, ev
    for (i, j) in slices:
        yield "slice[%d:%d]" % (i, j), (lambda i=i, j=j: fresh()[i:j])
        yield "simplified-slice[%d:%d]" % (i, j), (lambda i=i, j=j: fresh().simplify()[i:j])


def check(t, envspec, cx, slices):
    """returns (fails, stats)"""
    from amoco.config import conf

    size = R.size_of(t)
    fails = []
    stats = dict(rewritten=0, exc=0)
    old = conf.Cas.complexity
    conf.Cas.complexity = cx
    try:
        base = None
        for name, fn in paths(t, envspec, cx, slices):
            try:
                e = fn()
            except Exception as x:
                stats["exc"] += 1
                continue
            want = size
            if "slice[" in name:
                i, j = name.split("[")[1].rstrip("]").split(":")
                want = int(j) - int(i)
            if name == "build":
                base = str(e)
            elif str(e) != base:
                stats["rewritten"] += 1
            if not hasattr(e, "size") or e.size != want:
                fails.append(("%s:size" % name.split("[")[0], "%s: size %r expected %d: %s" % (name, getattr(e, "size", None), want, str(e)[:160])))
                continue
            try:
                for kind, detail in wellformed(e):
                    fails.append(("%s:%s" % (name.split("[")[0], kind), "%s: %s" % (name, detail[:300])))
                    break
            except Exception as x:
                fails.append(("%s:walk-%s" % (name.split("[")[0], type(x).__name__), "%s: %r" % (name, x)))
    finally:
        conf.Cas.complexity = old
    return fails, stats


def add_mem_vec(rnd, t, depth=0):
    """replace some register leaves by memory leaves and wrap some nodes in vec"""
    k = t[0]
    if k == "reg" and t[2] % 8 == 0 and not t[1].startswith(("rot", "sh")) and rnd.random() < 0.2:
        return ["mem", ["reg", "p32", 32], rnd.randrange(-8, 64), t[2]]
    if k in ("reg", "cst"):
        return t
    if k in ("cmp", "vec"):
        return [k, [add_mem_vec(rnd, c, depth + 1) for c in t[1]]]
    out = [x if not isinstance(x, list) else add_mem_vec(rnd, x, depth + 1) for x in t]
    if rnd.random() < 0.04 and k not in ("sbin",):
        s = R.size_of(out)
        return ["vec", [out, R.gen_tree(rnd, s, 1, signed_ops=False), R.gen_const(rnd, s)][: rnd.randrange(2, 4)]]
    return out


def gen_case(rnd):
    size = R.gen_width(rnd)
    t = R.gen_tree(rnd, size, rnd.randrange(1, 6))
    t = add_mem_vec(rnd, t)
    regs = R.regs_of(t)
    names = sorted(regs)
    conc = {k: [regs[k], R.gen_env(rnd, {k: regs[k]})[k]] for k in names}
    part = {k: v for k, v in conc.items() if rnd.random() < 0.5}
    symb = {}
    for k in names:
        if k.startswith(("rot", "sh")):
            continue
        if rnd.random() < 0.6:
            symb[k] = [regs[k], R.gen_tree(rnd, regs[k], rnd.randrange(1, 3), signed_ops=False)]
    envspec = {"concrete": conc, "partial": part, "symbolic": symb}
    cx = [0, 0, 8, 30][rnd.randrange(4)]
    sl = []
    for _ in range(2):
        if size >= 2:
            i = rnd.randrange(0, size - 1)
            j = rnd.randrange(i + 1, size + 1)
            sl.append([i, j])
    return dict(tree=t, env=envspec, complexity=cx, slices=sl)


def localise(case):
    """smallest subtree whose paths still show a width failure (same first bucket kind)"""
    t = case["tree"]
    for c in R.children(t):
        regs = R.regs_of(c)
        env2 = {n: {k: v for k, v in b.items() if k in regs} for n, b in case["env"].items()}
        s = R.size_of(c)
        sl = [[i, j] for i, j in case["slices"] if j <= s]
        sub = dict(tree=c, env=env2, complexity=case["complexity"], slices=sl)
        f, _ = check(c, decode_env(env2), case["complexity"], sl)
        if f:
            return localise(sub)
    return case


def decode_env(env):
    return {n: {k: (v[0], v[1]) for k, v in b.items()} for n, b in env.items()}


def run_shard(shard, tier, seed):
    from hypothesis import strategies as st
    from vlib.isa import time_guard, HarnessTimeout

    part = Partial()

    def body(rnd):
        case = gen_case(rnd)
        try:
            with time_guard(20):
                fails, stats = check(case["tree"], decode_env(case["env"]), case["complexity"], case["slices"])
                nt = stats["rewritten"] > 0 or bool(case["env"]["partial"]) or bool(case["env"]["symbolic"])
                part.case(case["tree"], nt, dict(tree=case["tree"], complexity=case["complexity"]))
                part.count("paths_raising", stats["exc"])
                part.count("paths_rewritten", stats["rewritten"])
                if fails:
                    m = localise(case)
                    f2, _ = check(m["tree"], decode_env(m["env"]), m["complexity"], m["slices"])
                    if not f2:
                        m, f2 = case, fails
                    seen = set()
                    for kind, detail in f2:
                        b = "%s:%s" % (kind, R.signature(m["tree"]))
                        if b not in seen:
                            seen.add(b)
                            part.fail(b, m, detail)
        except HarnessTimeout:
            part.count("inconclusive:harness-timeout")

    campaign(st.randoms(use_true_random=False), body, N[tier], shard_seed(seed, shard["sub"]))
    return part


def replay(case):
    fails, _ = check(case["tree"], decode_env(case["env"]), case["complexity"], case["slices"])
    for kind, detail in fails:
        return ("%s:%s" % (kind, R.signature(case["tree"])), detail)
    return None
