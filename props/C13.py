"""C13 - expressions, maps and memory behave as values.

Hypothesis RuleBasedStateMachine over a pool of expressions. Every pool member
has a baseline (width, value under 4 fixed valuations computed by the
independent walker). Rules use pool members as operands of operators, of
simplifications of larger expressions, of map reads/writes, compositions,
merges, memory writes. Invariant after every step: every pool member still has
its width and denotes its baseline values. Pickle rules: a pickled-and-restored
expression / mapper / MemoryMap prints, sizes and evaluates identically.
"""
import hashlib
import json
import pickle

from vlib import refsem as R
from vlib.runner import Partial, shard_seed

ID = "C13"
RULE = (
    "state machines of up to 30 (quick) / 50 (thorough) steps over a pool of expressions from the sign-agnostic part of the "
    "C01 grammar; rules: binary/unary operators, slicing, composition, conditional, simplify (plain, bitslice, widening) of "
    "a larger expression containing a member, map write/read (whole and sub-register, also on one long-lived mapper whose "
    "semantic fingerprint must only change when it is written), evaluation in a map, merge, vec "
    "simplification, bytes(), memory write + partial overwrite, pickling of members, maps and memory maps. Non-trivial = a "
    "history with >= 1 step after which some pool member's object was structurally re-shaped in place (its rendering "
    "changed), a pickle round trip of a map holding >= 2 entries, or a write through a mapper derived (use/eval/compose/assume/"
    "merge) from the long-lived one; distinct by the operation history."
)
ASSUMPTIONS = [
    "the walker ignores sign flags (only sign-agnostic operators are generated), so in-place changes of .sf are not judged here",
    "the 4 valuations are fixed functions of the register names",
]
NMACH = {"quick": 150, "thorough": 3000}  # per shard
STEPS = {"quick": 30, "thorough": 50}
NSHARDS = 16
K = 4


def shards(tier, seed):
    return [{"sub": j} for j in range(NSHARDS)]


class Env(object):
    """valuation k: register name -> int, a fixed function of the name"""

    def __init__(self, k):
        self.k = k
        self.cache = {}

    def __contains__(self, name):
        return True

    def __getitem__(self, name):
        v = self.cache.get(name)
        if v is None:
            h = hashlib.blake2b(("%s/%d" % (name, self.k)).encode(), digest_size=16).digest()
            v = int.from_bytes(h, "little")
            if self.k == 0:
                v |= (1 << 127) | 1
            self.cache[name] = v
        return v


ENVS = [Env(k) for k in range(K)]


def values(e):
    return [R.walk(e, env) for env in ENVS]


class Violation(Exception):
    def __init__(self, bucket, detail):
        Exception.__init__(self, bucket + ": " + detail)
        self.bucket = bucket
        self.detail = detail


class Model(object):
    """interpreter of operation histories (shared by the state machine and by replay)"""

    def __init__(self, exclude_known=False):
        self.pool = []  # (expr, size, values, str at creation)
        self.hist = []
        self.exclude_known = exclude_known
        self.excluded = 0
        self.reshaped = 0
        self.pickled_maps = 0
        self.last_strs = []
        self.M = None  # persistent mapper shared by the m-* operations
        self.Mfp = None
        self.derived = 0
        self.MM = None  # persistent MemoryMap and its latest copy (mm-* operations)
        self.MMfp = None
        self.MMc = None
        self.MMcfp = None

    def add(self, e):
        from amoco.cas.expressions import exp

        if not isinstance(e, exp) or e._is_top or not e._is_def or e.size == 0 or e.size > 256:
            return False
        if len(str(e)) > 500 or len(self.pool) >= 40:
            return False  # keep the per-step invariant cheap (expression growth is exponential otherwise)
        try:
            v = values(e)
        except (R.Inconclusive, AssertionError):
            return False
        self.pool.append((e, e.size, v, str(e)))
        self.last_strs.append(str(e))
        return True

    def get(self, i):
        if not self.pool:
            from amoco.cas.expressions import reg

            self.add(reg("a8", 8))
        return self.pool[i % len(self.pool)][0]

    def fit(self, b, size):
        """use b as an operand of width `size`"""
        if b.size == size:
            return b
        if b.size > size:
            return b[0:size]
        return b.zeroextend(size)

    def check(self, last):
        drop = []
        for k, (e, sz, vals, s0) in enumerate(self.pool):
            if e.size != sz:
                raise Violation("size-changed:%s" % last, "pool[%d] created as %s (%d bits) now has %d bits: %s" % (k, s0, sz, e.size, e))
            try:
                now = values(e)
            except R.Inconclusive as x:
                if self.exclude_known and last.endswith("-widening"):
                    # known finding C13-widening-inplace: excluded by construction (the member is
                    # dropped from the pool) so that the search continues behind it
                    drop.append(k)
                    continue
                raise Violation("became-undefined:%s" % last, "pool[%d] created as %s is now %s (%s)" % (k, s0, e, x))
            except AssertionError as x:
                raise Violation("malformed:%s" % last, "pool[%d] created as %s is now malformed: %s" % (k, s0, x))
            if now != vals:
                raise Violation("value-changed:%s" % last, "pool[%d] created as %s now reads %s: values %s -> %s" % (k, s0, e, [hex(x) for x in vals[:2]], [hex(x) for x in now[:2]]))
            s1 = str(e)
            if s1 != self.last_strs[k]:
                self.reshaped += 1
                self.last_strs[k] = s1
        if self.M is not None and self.Mfp is not None:
            now = self.fingerprint(self.M)
            if now != self.Mfp and self.exclude_known and last.endswith("-widening"):
                self.excluded += 1  # same known finding seen through the long-lived map
                self.Mfp = now
            elif now != self.Mfp:
                diff = [(x, y) for x, y in zip(now, self.Mfp) if x != y][:2] or [(len(now), len(self.Mfp))]
                raise Violation("map-changed:%s" % last, "the long-lived mapper changed without being written: %r" % (diff,))
        for what, mm_, fp_ in (("memory map", self.MM, self.MMfp), ("copy of the memory map", self.MMc, self.MMcfp)):
            if mm_ is not None and fp_ is not None:
                now = self.zones_fp(mm_)
                if now != fp_ and self.exclude_known and last.endswith("-widening"):
                    self.excluded += 1  # the known widening finding seen through the memory map
                    if mm_ is self.MM:
                        self.MMfp = now
                    else:
                        self.MMcfp = now
                elif now != fp_:
                    diff = [(x, y) for x, y in zip(now, fp_) if x != y][:2] or [(len(now), len(fp_))]
                    raise Violation("memorymap-changed:%s" % last, "the long-lived %s changed without being written: %r" % (what, diff))
        for k in reversed(drop):
            self.excluded += 1
            del self.pool[k]
            del self.last_strs[k]

    # ---- operations -------------------------------------------------------
    def apply(self, op):
        from amoco.cas import expressions as E
        from amoco.cas.mapper import mapper, merge
        from amoco.system.memory import MemoryMap
        from amoco.config import conf

        self.hist.append(op)
        k = op["op"]
        x = None
        if k == "new":
            x = R.build(op["tree"])
        else:
            a = self.get(op["a"])
            b = self.get(op.get("b", 0))
            size = a.size
            if k == "bin":
                bb = self.fit(b, size)
                s = op["sym"]
                if s == "+":
                    x = a + bb
                elif s == "-":
                    x = a - bb
                elif s == "*":
                    x = a * bb
                elif s == "&":
                    x = a & bb
                elif s == "|":
                    x = a | bb
                elif s == "^":
                    x = a ^ bb
                elif s == "==":
                    x = a == bb
                elif s == "<<":
                    x = a << (op["n"] % (size + 2))
                elif s == ">>":
                    x = a >> (op["n"] % (size + 2))
                elif s == "mask":
                    lo = op["n"] % size
                    hi = lo + (op["m"] % (size - lo))
                    x = a & E.cst(((1 << (hi - lo + 1)) - 1) << lo, size)
            elif k == "un":
                x = ~a if op["sym"] == "~" else -a
            elif k == "slice":
                lo = op["n"] % size
                hi = lo + 1 + (op["m"] % (size - lo))
                x = a[lo:hi]
                if op.get("simp"):
                    x = x.simplify()
            elif k == "comp":
                x = E.composer([a, b])
                if op.get("simp"):
                    x = x.simplify()
            elif k == "tst":
                bb = self.fit(b, size)
                x = E.tst(a == bb, a, bb)
                if op.get("simp"):
                    x = x.simplify()
            elif k == "simplify":
                bb = self.fit(b, size)
                opts = {}
                if op["opt"] == "bitslice":
                    opts = dict(bitslice=True)
                elif op["opt"] == "widening":
                    opts = dict(widening=True)
                form = op["form"]
                if form == 0:
                    big = E.op("+", a, bb)
                elif form == 1:
                    big = E.op("-", E.op("+", a, E.cst(3, size)), bb)
                elif form == 2:
                    big = E.op("&", a, E.cst(op["n"] & ((1 << size) - 1), size))
                elif form == 3:
                    big = E.composer([a, bb])
                elif form == 4:
                    big = E.op("^", E.op("|", a, bb), a)
                else:
                    big = E.tst(E.op("==", a, bb), a, bb)
                x = big.simplify(**opts)
            elif k == "self-simplify":
                # simplify() may reshape the member in place, but only into an equivalent form
                x = a.simplify(**({"bitslice": True} if op.get("opt") == "bitslice" else {}))
            elif k == "eval":
                m = mapper()
                r = E.reg(op["reg"], op["rsize"])
                m[r] = self.fit(b, op["rsize"])
                x = m(a)
            elif k == "mapwrite":
                m = mapper()
                r0 = E.reg("r%d" % size, size)
                m[r0] = a
                w = 1 + op["n"] % size
                lo = op["m"] % (size - w + 1)
                m[r0[lo: lo + w]] = self.fit(b, w)
                x = m(r0)
                if op.get("again"):
                    # values read out of the map are pool members *before* the next write
                    self.add(x)
                    self.add(m[r0])
                    x = None
                    m[r0[0:w]] = self.fit(a, w)
                    m[r0] = self.fit(b, size)
            elif k == "merge":
                conf_old = conf.Cas.complexity
                try:
                    m1 = mapper()
                    m2 = mapper()
                    r0 = E.reg("r%d" % size, size)
                    m1[r0] = a
                    m2[r0] = self.fit(b, size)
                    mm = merge(m1, m2, **({"widening": True} if op.get("widening") else {}))
                    x = mm[r0]
                finally:
                    conf.Cas.complexity = conf_old
            elif k == "vec":
                x = E.vec([a, self.fit(b, size)]).simplify()
            elif k == "bytes":
                if size % 8 == 0 and size >= 16:
                    n = size // 8
                    lo = op["n"] % n
                    hi = lo + 1 + op["m"] % (n - lo)
                    x = a.bytes(lo, hi, endian=op.get("endian", 1))
            elif k == "memwrite":
                if size % 8 == 0:
                    mm = MemoryMap()
                    mm.write(E.cst(0x1000, 32), a, endian=op.get("endian", 1))
                    if b.size % 8 == 0:
                        mm.write(E.cst(0x1000 + op["n"] % (size // 8), 32), b, endian=1)
                    got = mm.read(E.cst(0x1000, 32), size // 8)
                    for p in got:
                        if not isinstance(p, bytes):
                            self.add(p)
            elif k == "mapmem":
                m = mapper()
                p = E.reg("p32", 32)
                if size % 8 == 0:
                    m[E.mem(p, size)] = a
                    if b.size % 8 == 0:
                        m[E.mem(p + (op["n"] % 4), b.size)] = b
                    x = m(E.mem(p, size))
            elif k.startswith("mm-"):
                self.mm_op(k, op, a, b)
            elif k.startswith("m-"):
                x = self.map_op(k, op, a, b)
            elif k == "pickle-exp":
                self.pickle_exp(a)
            elif k == "pickle-map":
                self.pickle_map(a, b, op)
            else:
                raise ValueError(op)
        if x is not None and op.get("keep", True):
            self.add(x)
        label = k if k != "bin" else "bin" + op["sym"]
        if op.get("opt") == "widening" or op.get("widening"):
            label += "-widening"
        self.check(label)

    # ---- one long-lived mapper ----------------------------------------------
    RS = (8, 16, 32, 64)

    def mreg(self, j):
        from amoco.cas import expressions as E

        sz = self.RS[j % 4]
        return E.reg("R%d" % sz, sz)

    def maddr(self, op, size):
        from amoco.cas import expressions as E

        if op.get("sym"):
            return E.mem(E.reg("p32", 32), size, disp=(op.get("n", 0) % 8) * 4)
        return E.mem(E.cst(0x1000 + (op.get("n", 0) % 8) * 4, 32), size)

    def fingerprint(self, m):
        out = []
        for loc, v in m:
            try:
                vals = values(v)
            except (R.Inconclusive, AssertionError):
                vals = None
            out.append((str(loc), v.size, vals))
        return out + self.zones_fp(m.mmap)

    def zones_fp(self, mmap):
        """byte-level content of a MemoryMap: (zone, address, byte | (values of the symbolic value, byte index))"""
        out = []
        for key, z in sorted(mmap._zones.items(), key=lambda kv: str(kv[0])):
            for o in z._map:
                if o.data._is_raw:
                    for i, x in enumerate(bytes(o.data.val)):
                        out.append(("zone:%s" % key, o.vaddr + i, (x,) * K))  # same form as a constant kept as an expression
                else:
                    # per byte, so that a re-structuring of the objects (merging / splitting) is not a change
                    n = o.data.val.size // 8
                    try:
                        vs = values(o.data.val)
                    except (R.Inconclusive, AssertionError):
                        vs = None
                    for i in range(n):
                        j = i if o.data.endian == 1 else n - 1 - i
                        out.append(("zone:%s" % key, o.vaddr + i, None if vs is None else tuple((v >> (8 * j)) & 0xFF for v in vs)))
        return out

    def mm_op(self, k, op, a, b):
        from amoco.cas import expressions as E
        from amoco.system.memory import MemoryMap

        if self.MM is None:
            self.MM = MemoryMap()
            self.MM.write(E.cst(0x1000, 32), b"\x01\x02\x03\x04\x05\x06\x07\x08")
            self.MM.write(E.cst(0x1010, 32), E.reg("R64", 64))

        def wr(mm_, n, val):
            addr = E.cst(0x1000 + n % 40, 32)
            if val is None:
                mm_.write(addr, bytes((n * 7 + i) & 0xFF for i in range(1 + n % 6)))
            elif val.size % 8 == 0:
                mm_.write(addr, val, endian=1 if n & 64 else -1)

        if k == "mm-write":
            wr(self.MM, op["n"], a if op.get("sym") else None)
            self.MMfp = self.zones_fp(self.MM)
        elif k == "mm-copy":
            # writes through a copy must not be visible in the original, and later writes to the original not in the copy
            C = self.MM.copy()
            self.derived += 1
            fp0 = self.zones_fp(C)
            if fp0 != self.zones_fp(self.MM):
                raise Violation("memorymap-copy-differs", "MemoryMap.copy() is not equal to the original")
            wr(C, op["n"], a if op.get("sym") else None)
            wr(C, op["m"], None)
            self.MMc = C
            self.MMcfp = self.zones_fp(C)
        if self.MMfp is None:
            self.MMfp = self.zones_fp(self.MM)

    def map_op(self, k, op, a, b):
        from amoco.cas import expressions as E
        from amoco.cas.mapper import mapper, merge

        if self.M is None:
            self.M = mapper()
            self.M[self.mreg(2)] = E.reg("R32", 32) + 1
        M = self.M
        x = None
        legit = False
        if k == "m-set":
            r = self.mreg(op["j"])
            if op.get("slice"):
                w = 1 + op["n"] % r.size
                lo = op["m"] % (r.size - w + 1)
                M[r[lo: lo + w]] = self.fit(a, w)
            else:
                M[r] = self.fit(a, r.size)
            legit = True
        elif k == "m-get":
            r = self.mreg(op["j"])
            x = M(r) if op.get("call") else M[r]
        elif k == "m-store":
            if a.size % 8 == 0:
                M[self.maddr(op, a.size)] = a
                legit = True
        elif k == "m-load":
            sz = self.RS[op["j"] % 4]
            loc = self.maddr(op, sz)
            x = M(loc) if op.get("call") else M[loc]
            legit = bool(op.get("call"))  # the call form may record the read in the map
        elif k == "m-derive":
            how = op["how"]
            env = mapper()
            env[E.reg("a8", 8)] = E.cst(7, 8)
            env[E.reg("p32", 32)] = E.cst(0x1000, 32) if op.get("conc") else E.reg("q32", 32)
            if how == "use":
                D = M.use()
            elif how == "eval":
                D = M.eval(env)
            elif how == "rshift":
                D = env >> M
            elif how == "lshift":
                D = M << env
            elif how == "assume":
                D = M.assume([E.reg("a8", 8) == E.cst(7, 8)])
            else:
                D = merge(M, env)
            self.derived += 1
            # writes through the derived object must not be visible in the original
            r = self.mreg(op["j"])
            D[r] = E.cst(0x5A5A5A5A5A5A5A5A & ((1 << r.size) - 1), r.size)
            D[r[0:8]] = E.cst(0x11, 8)
            D[self.maddr(op, 32)] = E.cst(0xDEADBEEF, 32)
            D[E.mem(E.cst(0x1000 + (op.get("m", 0) % 8) * 4, 32), 32)] = E.reg("zz32", 32)
            D.mmap.write(0x2000 + (op.get("m", 0) % 4), b"\xAA\xBB")
            D.conds.append(E.reg("c8", 8) == E.cst(1, 8))
        if legit or self.Mfp is None:
            self.Mfp = self.fingerprint(M)
        return x

    def pickle_exp(self, a):
        b = pickle.loads(pickle.dumps(a))
        if str(b) != str(a) or b.size != a.size:
            raise Violation("pickle:exp-str", "%s -> %s" % (a, b))
        if values(b) != values(a):
            raise Violation("pickle:exp-value", "%s -> %s" % (a, b))
        if bool(b.sf) != bool(a.sf) or b.etype != a.etype:
            raise Violation("pickle:exp-attrs", "%s sf %r->%r etype %r->%r" % (a, a.sf, b.sf, a.etype, b.etype))
        if not (hash(a) == hash(b)):
            raise Violation("pickle:exp-hash", "%s" % a)
        # the sign declaration of every node survives, also where a node's flag differs from its operand's
        # (a private signed / unsigned slice of the member, alone and inside a conditional)
        from amoco.cas import expressions as E

        def shape(e, d=0):
            out = [type(e).__name__, e.size, bool(getattr(e, "sf", False))]
            if d < 6:
                for k in ("x", "l", "r", "tst", "a", "base"):
                    c = getattr(e, k, None)
                    if c is not None and hasattr(c, "size") and not callable(c):
                        out.append(shape(c, d + 1))
                if getattr(e, "_is_cmp", False):
                    out += [shape(p_, d + 1) for _, p_ in sorted(e.parts.items())]
            return tuple(out)

        w = 1 + (a.size - 1) // 2
        for flag in (True, False):
            try:
                s_ = a[0:w]
                if s_ is a or not s_._is_slc:
                    continue
                s_.sf = flag
                for obj in (s_, E.tst(E.reg("c1", 1), s_, E.cst(1, w))):
                    o2 = pickle.loads(pickle.dumps(obj))
                    if shape(o2) != shape(obj):
                        raise Violation("pickle:exp-sign-flags", "%s (slice declared %s): node kinds/sizes/sign flags before %r after %r" % (obj, "signed" if flag else "unsigned", shape(obj)[:6], shape(o2)[:6]))
            except Violation:
                raise
            except Exception:
                pass

    def pickle_map(self, a, b, op):
        from amoco.cas import expressions as E
        from amoco.cas.mapper import mapper

        m = mapper()
        ra = E.reg("r%d" % a.size, a.size)
        rb = E.reg("q%d" % b.size, b.size)
        m[ra] = a
        m[rb] = b
        if a.size % 8 == 0:
            m[E.mem(E.reg("p32", 32), a.size, disp=op.get("n", 0) % 16)] = a
        if op.get("raw"):
            m.mmap.write(0x2000, bytes(range(1, 9)))
        self.pickled_maps += 1
        m2 = pickle.loads(pickle.dumps(m))
        if str(m2) != str(m):
            raise Violation("pickle:map-str", "%s ---> %s" % (m, m2))
        for r in (ra, rb):
            v1, v2 = m(r), m2(r)
            if v1.size != v2.size or str(v1) != str(v2):
                raise Violation("pickle:map-read", "%s: %s -> %s" % (r, v1, v2))
            try:
                if values(v1) != values(v2):
                    raise Violation("pickle:map-value", "%s: %s -> %s" % (r, v1, v2))
            except R.Inconclusive:
                pass
        if str(m.mmap) != str(m2.mmap):
            raise Violation("pickle:mmap-str", "%s ---> %s" % (m.mmap, m2.mmap))
        mm2 = pickle.loads(pickle.dumps(m.mmap))
        if str(mm2) != str(m.mmap):
            raise Violation("pickle:mmap-str", "%s ---> %s" % (m.mmap, mm2))
        if op.get("raw"):
            if mm2.read(0x2000, 8) != m.mmap.read(0x2000, 8):
                raise Violation("pickle:mmap-read", "raw bytes differ")


def run_history(hist):
    """returns None | (bucket, detail)"""
    from vlib.runner import bucket_of_exception

    mdl = Model()
    try:
        for op in hist:
            mdl.apply(op)
    except Violation as v:
        return (v.bucket, v.detail), mdl
    except Exception as x:
        return (bucket_of_exception("raise:%s" % hist[len(mdl.hist) - 1]["op"], x), repr(x)), mdl
    return None, mdl


def make_machine(part, steps):
    from hypothesis import strategies as st
    from hypothesis.stateful import RuleBasedStateMachine, rule, precondition, initialize

    ints = st.integers(0, 1 << 16)

    class Machine(RuleBasedStateMachine):
        def __init__(self):
            RuleBasedStateMachine.__init__(self)
            self.m = Model(exclude_known=True)

        def do(self, op):
            from vlib.runner import bucket_of_exception

            try:
                self.m.apply(op)
            except Violation:
                FAIL["hist"] = list(self.m.hist)
                raise
            except (R.Inconclusive, AssertionError):
                raise
            except Exception as x:
                # an exception raised by amoco while an operand is merely *used* is C01/C17
                # business; here it only ends the history
                part.count("amoco_exception_in_step")
                self.m.hist.pop()

        @initialize(r=st.randoms(use_true_random=False))
        def init(self, r):
            for _ in range(3):
                size = [8, 16, 32, 64, 24, 13][r.randrange(6)]
                self.do(dict(op="new", tree=R.gen_tree(r, size, r.randrange(1, 4), signed_ops=False)))

        @rule(r=st.randoms(use_true_random=False))
        def new(self, r):
            size = [8, 16, 32, 64, 24, 13, 128][r.randrange(7)]
            self.do(dict(op="new", tree=R.gen_tree(r, size, r.randrange(1, 4), signed_ops=False)))

        @rule(a=ints, b=ints, sym=st.sampled_from(["+", "-", "*", "&", "|", "^", "==", "<<", ">>", "mask"]), n=ints, m=ints, keep=st.booleans())
        def binop(self, a, b, sym, n, m, keep):
            self.do(dict(op="bin", a=a, b=b, sym=sym, n=n, m=m, keep=keep))

        @rule(a=ints, sym=st.sampled_from(["~", "-"]))
        def unop(self, a, sym):
            self.do(dict(op="un", a=a, sym=sym))

        @rule(a=ints, n=ints, m=ints, simp=st.booleans())
        def slice_(self, a, n, m, simp):
            self.do(dict(op="slice", a=a, n=n, m=m, simp=simp))

        @rule(a=ints, b=ints, simp=st.booleans())
        def comp(self, a, b, simp):
            self.do(dict(op="comp", a=a, b=b, simp=simp))

        @rule(a=ints, b=ints, simp=st.booleans())
        def tst(self, a, b, simp):
            self.do(dict(op="tst", a=a, b=b, simp=simp))

        @rule(a=ints, b=ints, form=st.integers(0, 5), opt=st.sampled_from(["", "bitslice", "widening"]), n=ints)
        def simplify(self, a, b, form, opt, n):
            self.do(dict(op="simplify", a=a, b=b, form=form, opt=opt, n=n))

        @rule(a=ints, opt=st.sampled_from(["", "bitslice"]))
        def self_simplify(self, a, opt):
            self.do(dict(op="self-simplify", a=a, opt=opt, keep=False))

        @rule(a=ints, b=ints, reg=st.sampled_from(["a", "b", "c", "d"]), rsize=st.sampled_from([8, 16, 32, 64, 24, 13]))
        def eval_(self, a, b, reg, rsize):
            self.do(dict(op="eval", a=a, b=b, reg=reg + str(rsize), rsize=rsize))

        @rule(a=ints, b=ints, n=ints, m=ints, again=st.booleans())
        def mapwrite(self, a, b, n, m, again):
            self.do(dict(op="mapwrite", a=a, b=b, n=n, m=m, again=again))

        @rule(a=ints, b=ints, widening=st.booleans())
        def merge(self, a, b, widening):
            self.do(dict(op="merge", a=a, b=b, widening=widening))

        @rule(a=ints, b=ints)
        def vec(self, a, b):
            self.do(dict(op="vec", a=a, b=b))

        @rule(a=ints, n=ints, m=ints, endian=st.sampled_from([1, -1]))
        def bytes_(self, a, n, m, endian):
            self.do(dict(op="bytes", a=a, n=n, m=m, endian=endian))

        @rule(a=ints, b=ints, n=ints, endian=st.sampled_from([1, -1]))
        def memwrite(self, a, b, n, endian):
            self.do(dict(op="memwrite", a=a, b=b, n=n, endian=endian))

        @rule(a=ints, b=ints, n=ints)
        def mapmem(self, a, b, n):
            self.do(dict(op="mapmem", a=a, b=b, n=n))

        @rule(a=ints, j=st.integers(0, 3), sl=st.booleans(), n=ints, m=ints)
        def m_set(self, a, j, sl, n, m):
            self.do(dict(op="m-set", a=a, j=j, slice=sl, n=n, m=m))

        @rule(j=st.integers(0, 3), call=st.booleans())
        def m_get(self, j, call):
            self.do(dict(op="m-get", a=0, j=j, call=call))

        @rule(a=ints, n=ints, sym=st.booleans())
        def m_store(self, a, n, sym):
            self.do(dict(op="m-store", a=a, n=n, sym=sym))

        @rule(j=st.integers(0, 3), n=ints, sym=st.booleans(), call=st.booleans())
        def m_load(self, j, n, sym, call):
            self.do(dict(op="m-load", a=0, j=j, n=n, sym=sym, call=call))

        @rule(how=st.sampled_from(["use", "eval", "rshift", "lshift", "assume", "merge"]), j=st.integers(0, 3), n=ints, m=ints, sym=st.booleans(), conc=st.booleans())
        def m_derive(self, how, j, n, m, sym, conc):
            self.do(dict(op="m-derive", a=0, how=how, j=j, n=n, m=m, sym=sym, conc=conc))

        @rule(a=ints, n=ints, sym=st.booleans())
        def mm_write(self, a, n, sym):
            self.do(dict(op="mm-write", a=a, n=n, sym=sym))

        @rule(a=ints, n=ints, m=ints, sym=st.booleans())
        def mm_copy(self, a, n, m, sym):
            self.do(dict(op="mm-copy", a=a, n=n, m=m, sym=sym))

        @rule(a=ints)
        def pickle_exp(self, a):
            self.do(dict(op="pickle-exp", a=a))

        @rule(a=ints, b=ints, n=ints, raw=st.booleans())
        def pickle_map(self, a, b, n, raw):
            self.do(dict(op="pickle-map", a=a, b=b, n=n, raw=raw))

        def teardown(self):
            h = self.m.hist
            nt = self.m.reshaped > 0 or self.m.pickled_maps > 0 or self.m.derived > 0
            part.case(h, nt, [dict(o) for o in h[:12]])
            part.count("steps", len(h))
            part.count("reshaped_in_place", self.m.reshaped)
            part.count("pickled_maps", self.m.pickled_maps)
            part.count("derived_maps_written", self.m.derived)
            part.count("excluded_known:widening-inplace", self.m.excluded)

    return Machine


FAIL = {}


def run_shard(shard, tier, seed):
    import hypothesis
    from hypothesis import settings, HealthCheck, Phase
    from hypothesis.stateful import run_state_machine_as_test

    part = Partial()
    Machine = make_machine(part, STEPS[tier])
    FAIL.clear()
    s = settings(max_examples=NMACH[tier], stateful_step_count=STEPS[tier], deadline=None, database=None,
                 report_multiple_bugs=False, suppress_health_check=list(HealthCheck), print_blob=False,
                 phases=[Phase.generate])  # no library shrinking (5 min cap): the runner ddmin-shrinks the history
    try:
        run_state_machine_as_test(hypothesis.seed(shard_seed(seed, shard["sub"]))(Machine), settings=s)
    except Violation as v:
        hist = FAIL.get("hist") or []
        part.fail(v.bucket, dict(hist=hist), v.detail)
    except Exception as x:
        hist = FAIL.get("hist")
        if hist:
            r, _ = run_history(hist)
            if r is not None:
                part.fail(r[0], dict(hist=hist), r[1])
                return part
        raise
    return part


def replay(case):
    r, _ = run_history(case["hist"])
    return r


def shrink(case, bucket):
    from vlib.shrink import ddmin_list

    def fails(h):
        r, _ = run_history(h)
        return r is not None and r[0] == bucket

    h = case["hist"]
    if not fails(h):
        return case
    return dict(hist=ddmin_list(h, fails, 200))
