"""C15 - a loaded program's memory image equals the file's mapping.

load_program() on synthesised ELF images for every machine that has a loader
(unaligned, adjacent and page-sharing PT_LOAD segments, memsz > filesz), on the
shipped samples (ELF incl. dynamic relocation slots, PE), and on HEX / SREC /
raw inputs with an explicit cpu; conf.System.pagesize in {4096 .. 65536}.
Oracle: an independent segment-table reader: every byte of every loadable
segment equals the file byte mapped there, the non file-backed part reads as
zero, the program counter is the entry point, fetching an instruction returns
the file's bytes at that address, relocation slots hold the bound symbol.
"""
import glob
import os
import struct

from vlib import filegen as G
from vlib import isa as visa
from vlib.runner import Partial, campaign, shard_seed, bucket_of_exception

ID = "C15"
RULE = (
    "synthesised ELF images for x86, x86-64, ARM, AArch64, SPARC, MIPS, RISC-V and SH with 1-3 PT_LOAD segments "
    "(page aligned / unaligned / adjacent / page sharing, always p_offset == p_vaddr modulo 64 KiB, memsz >= filesz), "
    "page sizes 4096/8192/16384/65536; all shipped ELF and PE samples; HEX/SREC/raw byte strings with an explicit cpu. "
    "Non-trivial = two segments share a page, or memsz > filesz with non-zero file bytes after the segment's end; "
    "distinct by file bytes and page size."
)
ASSUMPTIONS = [
    "p_offset == p_vaddr modulo the largest page size is a precondition every real loader imposes; only such images are generated",
    "a bss byte that lies in the page-extended range of another segment is not judged (the ELF mapping itself is ambiguous there)",
]
N = {"quick": 60, "thorough": 2500}
MACH = ["x86", "x64", "arm", "aarch64", "sparc", "mips", "riscv", "sh"]
PAGES = [4096, 8192, 16384, 65536]
SAMPLES = "/repo/tests/samples"


def shards(tier, seed):
    return [{"kind": "elf", "machine": m, "sub": j} for m in MACH for j in range(2)] + [{"kind": "samples"}, {"kind": "records"}]


def repo_path(p):
    return p.replace("/repo", os.environ.get("VERIF_REPO", "/repo"), 1)


def flat(mm, addr, n):
    """(bytes, mask) : mask[i] = 1 concrete, 2 symbolic expression, 0 unmapped/undefined"""
    out = bytearray(n)
    mask = bytearray(n)
    exprs = {}
    try:
        parts = mm.read(addr, n)
    except MemoryError:
        return out, mask, exprs
    pos = 0
    for p in parts:
        if isinstance(p, bytes):
            out[pos: pos + len(p)] = p
            mask[pos: pos + len(p)] = b"\x01" * len(p)
            pos += len(p)
        else:
            k = p.size // 8
            if p._is_def:
                mask[pos: pos + k] = b"\x02" * k
                exprs[pos] = p
            pos += k
    return out, mask, exprs


def check_image(task, data, ref, page, relocs=None, label=""):
    """compare task memory with the segment table of `ref` (from G.elf_read)"""
    fails = []
    mm = task.state.mmap
    loads = [p for p in ref["phdr"] if p["p_type"] == 1]
    relocs = relocs or {}
    psz = 8 if ref["cls64"] else 4

    def ext_range(p):
        lo = p["p_vaddr"] & ~(page - 1)
        hi = (p["p_vaddr"] + max(p["p_memsz"], p["p_filesz"]) + page - 1) & ~(page - 1)
        return lo, hi

    for k, p in enumerate(loads):
        n = max(p["p_memsz"], p["p_filesz"])
        if n == 0 or n > 0x400000:
            continue
        got, mask, exprs = flat(mm, p["p_vaddr"], n)
        others = [ext_range(q) for j, q in enumerate(loads) if j != k]
        for i in range(n):
            va = p["p_vaddr"] + i
            slot = next((r for r in relocs if r <= va < r + psz), None)
            if slot is not None:
                continue
            if i < p["p_filesz"]:
                fo = p["p_offset"] + i
                exp = data[fo] if fo < len(data) else 0
                # a later segment's bss may legitimately cover this byte: skip if another segment owns it exactly
                if any(q is not p and q["p_vaddr"] <= va < q["p_vaddr"] + max(q["p_memsz"], q["p_filesz"]) for q in loads):
                    continue
                if mask[i] != 1 or got[i] != exp:
                    fails.append(("file-byte", "%ssegment %d: byte at %#x (file offset %#x) is %s, file has %#x" % (label, k, va, fo, ("%#x" % got[i]) if mask[i] == 1 else ("unmapped" if mask[i] == 0 else "symbolic"), exp)))
                    break
            else:
                if any(lo <= va < hi for lo, hi in others):
                    continue
                if mask[i] != 1 or got[i] != 0:
                    fails.append(("bss-byte", "%ssegment %d: byte at %#x beyond p_filesz is %s, expected 0" % (label, k, va, ("%#x" % got[i]) if mask[i] == 1 else ("unmapped" if mask[i] == 0 else "symbolic"))))
                    break
    for r_off, name in relocs.items():
        if not name:
            continue
        got, mask, exprs = flat(mm, r_off, psz)
        e = exprs.get(0)
        if e is None or not getattr(e, "_is_ext", False) or str(getattr(e, "ref", "")) != name:
            fails.append(("reloc-slot", "%srelocation slot %#x should hold external symbol %r, holds %s" % (label, r_off, name, e if e is not None else got.hex())))
            break
    try:
        pc = task.state(task.cpu.PC())
        if not pc._is_cst or pc.v != ref["e_entry"]:
            fails.append(("pc", "%sprogram counter %s, entry point %#x" % (label, pc, ref["e_entry"])))
    except Exception as x:
        fails.append((bucket_of_exception("raise:pc", x), repr(x)))
    # instruction fetch returns the file's bytes (also across the boundary of two abutting segments)
    def bytes_at(a, n):
        out = bytearray()
        for va in range(a, a + n):
            own = [q for q in loads if q["p_vaddr"] <= va < q["p_vaddr"] + max(q["p_memsz"], q["p_filesz"])]
            if len(own) != 1 or any(r <= va < r + psz for r in relocs):
                return None
            q = own[0]
            i = va - q["p_vaddr"]
            if i < q["p_filesz"]:
                fo = q["p_offset"] + i
                if fo >= len(data):
                    return None
                out.append(data[fo])
            else:
                if any(lo <= va < hi for j, (lo, hi) in enumerate(ext_range(x) for x in loads) if loads[j] is not q):
                    return None
                out.append(0)
        return bytes(out)

    pos = []
    for p in loads:
        n = p["p_filesz"]
        if n < 4 or n > 0x400000:
            continue
        pos += [p["p_vaddr"] + d for d in sorted({0, 5 % n, n // 2, n - 1, n - 2, n - 3, n - 5}) if 0 <= d < n]
    try:
        fails += check_fetch(task, bytes_at, pos[:24], label)
    except Exception as x:
        fails.append((bucket_of_exception("raise:fetch", x), repr(x)))
    return fails


def check_fetch(task, bytes_at, positions, label="", holes=False):
    """fetching an instruction at an address decodes exactly the bytes the file places there: the reference is the
    task's own decoder applied directly to the file's bytes for that address (bytes_at(a, n) -> bytes | None when some
    byte is not defined by the file, owned by two segments, or a relocation slot)"""
    fails = []
    dis = task.cpu.disassemble
    for a in positions:
        # the longest run of bytes the file defines from this address on (up to the decoder's window)
        window = None
        for n in range(16, 0, -1):
            window = bytes_at(a, n)
            if window is not None:
                break
        if window is None:
            continue
        try:
            try:
                dis._disassembler__i = None
            except Exception:
                pass
            with visa.time_guard(5):
                exp = dis(window)
            with visa.time_guard(5):
                got = task.read_instruction(a)
        except (Exception, visa.HarnessTimeout):
            continue  # decoder crashes are C17's business
        if exp is None or exp.length > len(window):
            # the bytes the file defines here are not a complete instruction: a fetch must not complete it with bytes from
            # beyond the hole / slot that follows
            # (only where what follows is really unmapped: HEX/SREC gaps; an ELF loader pads its pages with zeros)
            if holes and len(window) < 16 and got is not None and hasattr(got, "bytes") and got.length > len(window):
                fails.append(("fetch-beyond-defined-bytes", "%sread_instruction(%#x) returns %s (%d bytes: %s) but the file defines only %s there" % (label, a, got.mnemonic, got.length, got.bytes.hex(), window.hex())))
                break
            continue
        if got is None or not hasattr(got, "bytes"):
            fails.append(("fetch-none", "%sread_instruction(%#x) returns %r, the file's bytes %s decode as %s" % (label, a, got, window[: exp.length].hex(), exp.mnemonic)))
        elif got.bytes != exp.bytes:
            fails.append(("fetch", "%sread_instruction(%#x).bytes=%s, the file's bytes there decode as %s (%s)" % (label, a, got.bytes.hex(), exp.bytes.hex(), exp.mnemonic)))
        if fails:
            break
    return fails


def load(data, **kw):
    from amoco.system.core import load_program

    return load_program(data, **kw)


def with_pagesize(page):
    from amoco.config import conf

    class _c(object):
        def __enter__(self):
            self.old = conf.System.pagesize
            conf.System.pagesize = page

        def __exit__(self, *a):
            conf.System.pagesize = self.old

    return _c()


def elf_relocs(data, ref):
    """r_offset -> symbol name for relocations of REL/RELA sections linked to a dynamic symbol table"""
    out = {}
    e = ">" if ref["be"] else "<"
    shl = ref["shdr"]
    for s in shl:
        if s["sh_type"] not in (4, 9) or not s["sh_entsize"]:
            continue
        if not (0 <= s["sh_link"] < len(shl)):
            continue
        symsec = shl[s["sh_link"]]
        if symsec["sh_type"] != 11 or not (0 <= symsec["sh_link"] < len(shl)):
            continue
        strsec = shl[symsec["sh_link"]]
        strtab = data[strsec["sh_offset"]: strsec["sh_offset"] + strsec["sh_size"]]
        for k in range(s["sh_size"] // s["sh_entsize"]):
            o = s["sh_offset"] + k * s["sh_entsize"]
            if ref["cls64"]:
                r_off, r_info = struct.unpack_from(e + "QQ", data, o)
                sym = r_info >> 32
                so = symsec["sh_offset"] + sym * 24
                nm, = struct.unpack_from(e + "I", data, so)
            else:
                r_off, r_info = struct.unpack_from(e + "II", data, o)
                sym = r_info >> 8
                so = symsec["sh_offset"] + sym * 16
                nm, = struct.unpack_from(e + "I", data, so)
            name = strtab[nm:].split(b"\0")[0].decode("latin1")
            if r_off:
                out[r_off] = name if sym else ""  # "" = slot named by a relocation that binds no symbol
    return out


def run_elf(shard, tier, seed, part):
    from hypothesis import strategies as st

    def body(rnd):
        page = PAGES[rnd.randrange(4)]
        if rnd.random() < 0.3:
            # a file aligned for 4 KiB pages loaded with a larger configured page size: one segment
            # (page-extended ranges of several segments would overlap with inconsistent file content),
            # placed far enough into the file for the page start to exist
            spec = G.elf_gen_spec(rnd, machine=shard["machine"], page=0x1000, loader=True)
            spec["segs"] = spec["segs"][:1]
            for s in spec["segs"]:
                s["offset"] += 0x10000
            spec["entry"] = spec["segs"][0]["vaddr"]
            part.count("aligned_4k_only")
        else:
            spec = G.elf_gen_spec(rnd, machine=shard["machine"], page=0x10000, loader=True)
        spec["etype"] = 2
        spec["entry"] &= ~3  # (an odd ARM entry selects Thumb and is cleared by the loader)
        for s in spec["segs"]:
            s["flags"] |= 1
        try:
            data = G.elf_build(spec)
        except ValueError:
            part.count("generator_rejected")
            return
        # append non-zero bytes so that "beyond filesz" is distinguishable from file content
        data = data + bytes((i * 11 + 5) & 0xFF or 1 for i in range(0x300))
        case = dict(kind="elf", spec=spec, page=page)
        fails = check_case(case)
        segs = spec["segs"]
        share = any((a["vaddr"] + a["memsz"] - 1) // page == b["vaddr"] // page for a in segs for b in segs if a is not b)
        bss = any(s["memsz"] > s["filesz"] for s in segs)
        part.case(case, share or bss, dict(machine=shard["machine"], page=page, segs=[(hex(s["vaddr"]), hex(s["offset"]), s["filesz"], s["memsz"]) for s in segs]))
        part.count("page_sharing" if share else "no_sharing")
        for b, d in fails:
            part.fail(b, case, d)

    campaign(st.randoms(use_true_random=False), body, N[tier], shard_seed(seed, shard["machine"], shard["sub"]))


def check_case(case):
    k = case["kind"]
    try:
        if k == "elf":
            spec = case["spec"]
            data = G.elf_build(spec) + bytes((i * 11 + 5) & 0xFF or 1 for i in range(0x300))
            ref = G.elf_read(data)
            with with_pagesize(case["page"]):
                t = load(data)
            if t is None:
                return [("no-task:%s" % ref["e_machine"], "load_program returned None for machine %d" % ref["e_machine"])]
            return [("%s:elf%d%s" % (b, 64 if ref["cls64"] else 32, "be" if ref["be"] else "le"), d) for b, d in check_image(t, data, ref, case["page"])]
        if k == "sample":
            f = repo_path(SAMPLES) + "/" + case["file"]
            data = open(f, "rb").read()
            if data[:4] == b"\x7fELF":
                ref = G.elf_read(data)
                t = load(f)
                if t is None:
                    return []
                return [("%s:sample" % b, d) for b, d in check_image(t, data, ref, 4096, elf_relocs(data, ref), case["file"] + ": ")]
            if data[:2] == b"MZ":
                return check_pe(f, data, case["file"])
            return []
        if k == "raw":
            data = bytes.fromhex(case["hex"])
            from amoco.arch.x86 import cpu_x86

            t = load(data, cpu=cpu_x86)
            got, mask, _ = flat(t.state.mmap, 0, len(data))
            if bytes(got) != data or any(m != 1 for m in mask):
                return [("raw-image", "raw buffer not mapped at 0")]
            pc = t.state(cpu_x86.eip)
            if not pc._is_cst or pc.v != 0:
                return [("raw-pc", "pc=%s" % pc)]
            return []
        if k in ("hex", "srec"):
            recs = [(t_, a, bytes.fromhex(d)) for t_, a, d in case["recs"]]
            text = ("\n".join((G.hex_line if k == "hex" else G.srec_line)(*r) for r in recs) + "\n").encode()
            from amoco.arch.x86 import cpu_x86

            t = load(text, cpu=cpu_x86)
            fails = []
            model = {}
            base = 0
            hexrecs = []
            for (rt, a, d) in recs:
                if k == "hex":
                    # extended segment (02: paragraph number, base = 16 * it) / linear (04: upper 16 bits) address records
                    if rt == 2:
                        base = int.from_bytes(d, "big") * 16
                    elif rt == 4:
                        base = int.from_bytes(d, "big") << 16
                    elif rt == 0:
                        hexrecs.append((0, base + a, d))
                        for i, b in enumerate(d):
                            model[base + a + i] = b
                else:
                    if rt in (1, 2, 3):
                        for i, b in enumerate(d):
                            model[a + i] = b
            for a, b in sorted(model.items()):
                got, mask, _ = flat(t.state.mmap, a, 1)
                if mask[0] != 1 or got[0] != b:
                    fails.append(("%s-image" % k, "byte at %#x is %s, record has %#x" % (a, got[0] if mask[0] else "unmapped", b)))
                    break
            # fetches at the start and near the end of every data record (the next record may abut)
            pos = []
            for (rt, a, d) in (hexrecs if k == "hex" else recs):
                if (k == "hex" and rt == 0) or (k == "srec" and rt in (1, 2, 3)):
                    pos += [a + x for x in sorted({0, len(d) - 1, len(d) - 2, len(d) - 3}) if 0 <= x < len(d)]

            def bytes_at(a, n):
                if all((a + i) in model for i in range(n)):
                    return bytes(model[a + i] for i in range(n))
                return None

            if not fails:
                fails += [("%s-%s" % (k, b_), d_) for b_, d_ in check_fetch(t, bytes_at, pos[:40], holes=True)]
            return fails
    except Exception as x:
        return [(bucket_of_exception("raise:%s" % k, x), repr(x))]
    return []


def check_pe(f, data, rel):
    lf, = struct.unpack_from("<I", data, 0x3C)
    nsec, = struct.unpack_from("<H", data, lf + 6)
    optsz, = struct.unpack_from("<H", data, lf + 20)
    magic, = struct.unpack_from("<H", data, lf + 24)
    ep, = struct.unpack_from("<I", data, lf + 24 + 16)
    base = struct.unpack_from("<I", data, lf + 24 + 28)[0] if magic == 0x10B else struct.unpack_from("<Q", data, lf + 24 + 24)[0]
    so = lf + 24 + optsz
    t = load(f)
    if t is None:
        return []
    fails = []
    for k in range(nsec):
        name, vs, rva, rs, pr = struct.unpack_from("<8sIIII", data, so + 40 * k)
        n = min(rs, vs) if vs else rs
        got, mask, exprs = flat(t.state.mmap, base + rva, max(vs, n))
        for i in range(max(vs, n)):
            if mask[i] == 2:
                continue  # import slots hold external symbols
            exp = data[pr + i] if i < n and pr + i < len(data) else 0
            if i >= n and i >= vs:
                break
            if mask[i] != 1 or got[i] != exp:
                fails.append(("pe-section-byte:%s" % ("file" if i < n else "pad"), "%s: section %s byte at %#x is %s, expected %#x" % (rel, name.rstrip(b"\0"), base + rva + i, ("%#x" % got[i]) if mask[i] == 1 else "unmapped", exp)))
                break
    pc = t.state(t.cpu.PC())
    if not pc._is_cst or pc.v != base + ep:
        fails.append(("pe-pc", "%s: pc=%s entry=%#x" % (rel, pc, base + ep)))
    return fails


def run_shard(shard, tier, seed):
    from hypothesis import strategies as st

    part = Partial()
    if shard["kind"] == "elf":
        run_elf(shard, tier, seed, part)
    elif shard["kind"] == "samples":
        for f in sorted(glob.glob(repo_path(SAMPLES) + "/**/*", recursive=True)):
            if not os.path.isfile(f):
                continue
            d = open(f, "rb").read(4)
            if d[:4] != b"\x7fELF" and d[:2] != b"MZ":
                continue
            case = dict(kind="sample", file=f.split("samples/")[1])
            fails = check_case(case)
            part.case(case, True, case)
            for b, dd in fails:
                part.fail(b, case, dd)
    else:
        def body(rnd):
            k = rnd.randrange(3)
            if k == 0:
                case = dict(kind="raw", hex=bytes(rnd.getrandbits(8) for _ in range(rnd.randrange(1, 200))).hex())
            elif k == 1:
                case = dict(kind="hex", recs=[[t, a, d.hex()] for t, a, d in G.hex_gen(rnd) if t in (0, 1, 2, 4)])
            else:
                case = dict(kind="srec", recs=[[t, a, d.hex()] for t, a, d in G.srec_gen(rnd)])
            fails = check_case(case)
            part.case(case, True, case if len(str(case)) < 600 else dict(kind=case["kind"]))
            for b, dd in fails:
                part.fail(b, case, dd)

        campaign(st.randoms(use_true_random=False), body, N[tier] * 4, shard_seed(seed, "rec"))
    return part


def replay(case):
    fails = check_case(case)
    return fails[0] if fails else None
