"""C16 - structure definitions encode, decode and lay out like C.

Definitions generated from the grammar of the structure language (raw types,
arrays, per-field byte order, nested structures and arrays of them, packed,
unions, bitfields, counted / bound / LEB128 / terminated variable-length
fields); pointer sizes 32 and 64. Oracle: an independent C-layout calculator
(natural alignment, struct alignment = max member alignment, tail padding,
union = max member) cross-checked against clang in the self-test, python's
struct for scalar values, reference codecs for bitfields and LEB128.
"""
import struct

from vlib.runner import Partial, campaign, shard_seed, bucket_of_exception

ID = "C16"
RULE = (
    "definitions of 1..7 fields drawn from: scalars c b B h H i I l L q Q f d P and s, arrays (*n), byte order marks, "
    "fields of previously generated structures (nesting depth <= 3) and arrays of them, packed or natural layout, unions, "
    "bitfields (#a/b/c), and - in packed top-level structures - counted (s*~I), bound (s*.n), LEB128 (I*%leb128) and "
    "NUL-terminated (s*~) fields; pointer size 32 and 64; data built from generated values by a reference packer (padding "
    "zero). Non-trivial = the definition has interior or tail padding, nesting, a bitfield or a variable-length field; "
    "distinct by (definition source, packed, pointer size)."
)
ASSUMPTIONS = [
    "the C ABI reference is LP64 / ILP32 with natural alignment (long and pointers = pointer size, long long and double 8-byte aligned), validated against clang -target x86_64 / armv7 in the self-test when clang is present",
    "variable-length fields are generated only in packed top-level structures, where C-like layout has no alignment question",
]
N = {"quick": 700, "thorough": 25000}
NSHARDS = 16
SCALARS = ["c", "b", "B", "h", "H", "i", "I", "l", "L", "q", "Q", "f", "d", "P"]
STD = {"c": 1, "b": 1, "B": 1, "h": 2, "H": 2, "i": 4, "I": 4, "q": 8, "Q": 8, "f": 4, "d": 8, "s": 1}
_ctr = [0]


def shards(tier, seed):
    return [{"sub": j} for j in range(NSHARDS)]


def raw_size(t, ps):
    return ps if t in "PlL" else STD[t]


def std_letter(t, ps):
    if t == "P" or t == "L":
        return "I" if ps == 4 else "Q"
    if t == "l":
        return "i" if ps == 4 else "q"
    return t


# ---- definition specs --------------------------------------------------------
# field: dict(kind=raw|struct|bits|cnt|bind|leb|var, ...)


def gen_struct(rnd, depth, pool, allow_var):
    union = rnd.random() < 0.12
    # nested definitions are never packed: amoco gives a packed structure the alignment of its
    # members when it is embedded, C gives it 1; that corner is left out of the domain
    packed = depth == 0 and rnd.random() < 0.45
    fields = []
    n = rnd.randrange(1, 8)
    for k in range(n):
        name = "f%d" % k
        c = rnd.random()
        if c < 0.62 or (union and c < 0.9):
            t = SCALARS[rnd.randrange(len(SCALARS))] if rnd.random() < 0.9 else "s"
            cnt = [0, 0, 0, 2, 3, 5][rnd.randrange(6)]
            if t == "s":
                cnt = rnd.randrange(1, 7)
            fields.append(dict(kind="raw", t=t, count=cnt, order=["", "<", ">"][rnd.randrange(3)], name=name))
        elif c < 0.8 and pool and depth < 3 and not union:
            sub = pool[rnd.randrange(len(pool))]
            fields.append(dict(kind="struct", sub=sub, count=[0, 0, 2, 3][rnd.randrange(4)], name=name))
        elif c < 0.9 and not union:
            t = ["B", "H", "I", "Q"][rnd.randrange(4)]
            total = STD[t] * 8
            sizes = []
            left = total
            while left > 0 and len(sizes) < 5:
                s = rnd.randrange(1, left + 1) if len(sizes) < 4 else left
                sizes.append(s)
                left -= s
            # the pieces of one storage unit are declared on one line (#3/5/...) or a leading group followed by one line per piece
            # (amoco merges a following bitfield line into the open unit only when it declares a single piece)
            cuts = list(range(rnd.randrange(1, len(sizes)), len(sizes))) if len(sizes) >= 2 and rnd.random() < 0.4 else []
            fields.append(dict(kind="bits", t=t, sizes=sizes, names=["%s_%d" % (name, j) for j in range(len(sizes))], order=["", "<", ">"][rnd.randrange(3)], cuts=cuts))
        elif allow_var and packed and not union:
            v = rnd.randrange(4)
            if v == 0:
                fields.append(dict(kind="cnt", ct="BHI"[rnd.randrange(3)], name=name, order=["", "<", ">"][rnd.randrange(3)]))
            elif v == 1:
                ints = [f for f in fields if f["kind"] == "raw" and f["t"] in "BHI" and f["count"] == 0]
                if ints:
                    fields.append(dict(kind="bind", to=ints[-1]["name"], name=name))
            elif v == 2:
                fields.append(dict(kind="leb", t="Ii"[rnd.randrange(2)], name=name))
            else:
                fields.append(dict(kind="var", name=name))
    if not fields:
        fields.append(dict(kind="raw", t="B", count=0, order="", name="f0"))
    _ctr[0] += 1
    return dict(name="S%d_%d" % (depth, _ctr[0]), packed=packed and not union, union=union, fields=fields)


def gen_varchild(rnd):
    """a packed structure of variable length (one counted / LEB128 / terminated member among scalars): element type of arrays"""
    fields = []
    for k in range(rnd.randrange(0, 3)):
        fields.append(dict(kind="raw", t="BHIbhi"[rnd.randrange(6)], count=0, order=["", "<", ">"][rnd.randrange(3)], name="v%d" % k))
    v = rnd.randrange(3)
    if v == 0:
        fields.append(dict(kind="cnt", ct="BH"[rnd.randrange(2)], name="vv", order=["", "<", ">"][rnd.randrange(3)]))
    elif v == 1:
        fields.append(dict(kind="leb", t="Ii"[rnd.randrange(2)], name="vv"))
    else:
        fields.append(dict(kind="var", name="vv"))
    if rnd.random() < 0.5:
        fields.append(dict(kind="raw", t="BH"[rnd.randrange(2)], count=0, order="", name="vz"))
    _ctr[0] += 1
    return dict(name="V_%d" % _ctr[0], packed=True, union=False, fields=fields)


def source(sd):
    lines = []
    for f in sd["fields"]:
        k = f["kind"]
        if k == "raw":
            lines.append("%s%s :%s %s" % (f["t"], "*%d" % f["count"] if f["count"] else "", f["order"], f["name"]))
        elif k == "struct":
            lines.append("%s%s : %s" % (f["sub"]["name"], "*%d" % f["count"] if f["count"] else "", f["name"]))
        elif k == "bits":
            edges = [0] + list(f.get("cuts") or []) + [len(f["sizes"])]
            for lo, hi in zip(edges, edges[1:]):
                lines.append("%s*#%s :%s %s" % (f["t"], "/".join(map(str, f["sizes"][lo:hi])), f["order"], "/".join(f["names"][lo:hi])))
        elif k == "cnt":
            lines.append("s*~%s :%s %s" % (f["ct"], f["order"], f["name"]))
        elif k == "bind":
            lines.append("s*.%s : %s" % (f["to"], f["name"]))
        elif k == "leb":
            lines.append("%s*%%leb128 : %s" % (f["t"], f["name"]))
        else:
            lines.append("s*~ : %s" % f["name"])
    return "\n".join(lines)


# ---- reference layout --------------------------------------------------------


def align_of(sd, ps):
    a = 1
    for f in sd["fields"]:
        a = max(a, field_align(f, ps))
    return a


def field_align(f, ps):
    k = f["kind"]
    if k == "raw":
        return raw_size(f["t"], ps)
    if k == "bits":
        return STD[f["t"]]
    if k == "struct":
        return align_of(f["sub"], ps)
    return 1


def field_size(f, ps):
    k = f["kind"]
    if k == "raw":
        return raw_size(f["t"], ps) * max(f["count"], 1)
    if k == "bits":
        return STD[f["t"]]
    if k == "struct":
        return size_of(f["sub"], ps) * max(f["count"], 1)
    return None  # variable


def layout(sd, ps):
    """[(offset, field)] for fixed-size definitions, total size"""
    offs = []
    o = 0
    mx = 0
    for f in sd["fields"]:
        a = 1 if sd["packed"] else field_align(f, ps)
        if sd["union"]:
            offs.append(0)
            mx = max(mx, field_size(f, ps))
            continue
        if o % a:
            o += a - o % a
        offs.append(o)
        o += field_size(f, ps)
    size = mx if sd["union"] else o
    A = 1 if sd["packed"] else align_of(sd, ps)
    if size % A:
        size += A - size % A
    return offs, size


def size_of(sd, ps):
    return layout(sd, ps)[1]


def has_var(sd):
    return any(f["kind"] in ("cnt", "bind", "leb", "var") or (f["kind"] == "struct" and has_var(f["sub"])) for f in sd["fields"])


# ---- values and reference packer ---------------------------------------------


def gen_value(rnd, f, ps):
    k = f["kind"]
    if k == "raw":
        t = f["t"]
        n = max(f["count"], 1)
        if t == "s":
            return bytes(rnd.randrange(1, 256) for _ in range(f["count"]))
        if t == "c":
            v = [bytes([rnd.randrange(256)]) for _ in range(n)]
        elif t in "fd":
            v = [float(rnd.randrange(-1000, 1000)) / 4 for _ in range(n)]
        else:
            bits = raw_size(t, ps) * 8
            signed = t in "bhilq"
            v = []
            for _ in range(n):
                x = [0, 1, (1 << bits) - 1, 1 << (bits - 1), rnd.getrandbits(bits)][rnd.randrange(5)]
                if signed and x >> (bits - 1):
                    x -= 1 << bits
                v.append(x)
        return v if f["count"] else v[0]
    if k == "bits":
        return {nm: rnd.getrandbits(sz) for nm, sz in zip(f["names"], f["sizes"])}
    if k == "struct":
        vs = [gen_values(rnd, f["sub"], ps) for _ in range(max(f["count"], 1))]
        return vs if f["count"] else vs[0]
    if k == "cnt":
        return bytes(rnd.randrange(256) for _ in range(rnd.randrange(0, 6)))
    if k == "leb":
        bits = [1, 7, 8, 14, 21, 31][rnd.randrange(6)]
        x = rnd.getrandbits(bits)
        if f["t"] == "i" and rnd.random() < 0.5:
            x = -x
        return x
    if k == "var":
        return bytes(rnd.randrange(1, 256) for _ in range(rnd.randrange(0, 6))) + b"\0"
    return None  # bind: filled from the bound field


def gen_values(rnd, sd, ps):
    vals = {}
    for f in sd["fields"]:
        if f["kind"] == "bind":
            n = vals[f["to"]]
            n = n % 7
            vals[f["to"]] = n
            vals[f["name"]] = bytes(rnd.randrange(256) for _ in range(n))
        elif f["kind"] == "bits":
            vals["/".join(f["names"])] = gen_value(rnd, f, ps)
        else:
            vals[f["name"]] = gen_value(rnd, f, ps)
    return vals


def leb_encode(x, signed):
    out = bytearray()
    if not signed:
        while True:
            b = x & 0x7F
            x >>= 7
            if x:
                out.append(b | 0x80)
            else:
                out.append(b)
                return bytes(out)
    while True:
        b = x & 0x7F
        x >>= 7
        if (x == 0 and not b & 0x40) or (x == -1 and b & 0x40):
            out.append(b)
            return bytes(out)
        out.append(b | 0x80)


def pack_field(f, v, ps):
    k = f["kind"]
    if k == "raw":
        o = f["order"] or "<"
        t = f["t"]
        if t == "s":
            return v
        n = max(f["count"], 1)
        vs = v if f["count"] else [v]
        if t == "c":
            return b"".join(vs)
        return struct.pack(o + "%d%s" % (n, std_letter(t, ps)), *vs)
    if k == "bits":
        x = 0
        l = 0
        for nm, sz in zip(f["names"], f["sizes"]):
            x |= (v[nm] & ((1 << sz) - 1)) << l
            l += sz
        return struct.pack((f["order"] or "<") + f["t"], x)
    if k == "struct":
        vs = v if f["count"] else [v]
        return b"".join(pack_ref(f["sub"], x, ps) for x in vs)
    if k == "cnt":
        return struct.pack((f["order"] or "<") + f["ct"], len(v)) + v
    if k == "bind":
        return v
    if k == "leb":
        return leb_encode(v, f["t"] == "i")
    return v


def pack_ref(sd, vals, ps):
    if sd["union"]:
        size = size_of(sd, ps)
        parts = [pack_field(f, vals[f["name"]], ps) for f in sd["fields"]]
        best = max(parts, key=len)
        return best.ljust(size, b"\0")
    out = bytearray()
    for f in sd["fields"]:
        a = 1 if sd["packed"] else field_align(f, ps)
        while len(out) % a:
            out.append(0)
        key = "/".join(f["names"]) if f["kind"] == "bits" else f["name"]
        out += pack_field(f, vals[key], ps)
    if not has_var(sd):
        A = 1 if sd["packed"] else align_of(sd, ps)
        while len(out) % A:
            out.append(0)
    return bytes(out)


# ---- amoco side ----------------------------------------------------------------


def define(sd, made):
    from amoco.system import structs as S

    if sd["name"] in made:
        return made[sd["name"]]
    for f in sd["fields"]:
        if f["kind"] == "struct":
            define(f["sub"], made)
    fac = S.UnionFactory if sd["union"] else S.StructFactory
    kw = {} if sd["union"] else dict(packed=sd["packed"])
    cls = fac(sd["name"], source(sd), **kw)
    made[sd["name"]] = cls
    return cls


def compare_values(f, got, exp, ps, path):
    k = f["kind"]
    if k == "raw":
        if f["count"] and f["t"] not in "sc":
            got = list(got)
        if f["t"] == "c" and f["count"]:
            exp = b"".join(exp)
        if got != exp:
            return ("raw-%s%s" % (f["t"], "-array" if f["count"] else ""), "%s: unpacked %r expected %r" % (path, got, exp))
        return None
    if k == "struct":
        gs = got if f["count"] else [got]
        es = exp if f["count"] else [exp]
        if len(gs) != len(es):
            return ("struct-array", "%s: %d elements expected %d" % (path, len(gs), len(es)))
        for j, (g, e) in enumerate(zip(gs, es)):
            r = compare_struct(f["sub"], g, e, ps, "%s[%d]" % (path, j))
            if r:
                return r
        return None
    if k == "cnt":
        if (got or b"") != exp:
            return ("cnt", "%s: counted field %r expected %r" % (path, got, exp))
        return None
    if k == "bind":
        if (got or b"") != exp:
            return ("bind", "%s: bound field %r expected %r" % (path, got, exp))
        return None
    if got != exp:
        return (k, "%s: unpacked %r expected %r" % (path, got, exp))
    return None


def compare_struct(sd, inst, vals, ps, path):
    for f in sd["fields"]:
        if f["kind"] == "bits":
            exp = vals["/".join(f["names"])]
            for nm in f["names"]:
                try:
                    g = inst[nm]
                except Exception as x:
                    return ("bits-missing", "%s.%s: missing (%r)" % (path, nm, x))
                if g != exp[nm]:
                    return ("bits", "%s.%s: bitfield %r expected %r" % (path, nm, g, exp[nm]))
            continue
        if sd["union"]:
            continue
        try:
            g = inst[f["name"]]
        except Exception as x:
            return ("missing-" + f["kind"], "%s.%s: missing (%r)" % (path, f["name"], x))
        r = compare_values(f, g, vals[f["name"]], ps, "%s.%s" % (path, f["name"]))
        if r:
            return r
    return None


def features(sd, ps):
    fs = set()
    if sd["union"]:
        fs.add("union")
    if sd["packed"]:
        fs.add("packed")
    for f in sd["fields"]:
        if f["kind"] == "raw" and f["count"] and f["t"] not in "s":
            fs.add("array")
        elif f["kind"] == "raw" and f["t"] in "lL":
            fs.add("long")
        elif f["kind"] != "raw":
            fs.add(f["kind"])
        if f["kind"] == "struct" and has_var(f["sub"]):
            fs.add("vararray" if f["count"] >= 3 else "varnested")
    if not has_var(sd) and not sd["union"]:
        offs, size = layout(sd, ps)
        tight = sum(field_size(f, ps) for f in sd["fields"])
        if size != tight:
            fs.add("padding")
    return fs


def check(case):
    """returns list of (bucket, detail)"""
    sd, ps, vals = case["def"], case["ps"], case["vals"]
    fails = []
    made = {}
    try:
        cls = define(sd, made)
    except Exception as x:
        return [(bucket_of_exception("raise:define", x), "%r\n%s" % (x, source(sd)))]
    var = has_var(sd)
    fs_ = features(sd, ps)
    feat = next((x for x in ("vararray", "varnested", "union", "cnt", "bind", "leb", "var", "struct", "bits", "long", "array") if x in fs_), "plain")
    nested = any(f["kind"] == "struct" for f in sd["fields"])
    natural_child = any(f["kind"] == "struct" and not f["sub"]["packed"] for f in sd["fields"])
    pn = ":packed-nested" if (sd["packed"] and natural_child) else (":nested-psize" if (nested and ps != struct.calcsize("P")) else "")
    src = source(sd).replace("\n", " | ")
    if not var:
        offs, size = layout(sd, ps)
        try:
            got = cls.size(ps * 8)
            if got != size:
                fails.append(("size:%s" % feat, "size(%d)=%r expected %d  [%s]%s" % (ps * 8, got, size, src, " packed" if sd["packed"] else "")))
            A = 1 if False else align_of(sd, ps)
            ga = cls.align_value(ps * 8)
            if not sd["packed"] and ga != A:
                fails.append(("align:%s" % feat, "align_value=%r expected %d  [%s]" % (ga, A, src)))
            inst = cls()
            go = [o for o, _ in inst.offsets(ps * 8)]
            eo = []
            for o, f in zip(offs, sd["fields"]):
                if f["kind"] == "bits":
                    eo += [None] * len(f["sizes"])
                else:
                    eo.append(o)
            if len(go) == len(eo):
                for g, e, in zip(go, eo):
                    if e is not None and g != e:
                        fails.append(("offsets:%s" % feat, "offsets=%r expected %r  [%s]" % (go, eo, src)))
                        break
            else:
                fails.append(("offsets:%s" % feat, "offsets=%r expected %r  [%s]" % (go, eo, src)))
            for o, f in zip(offs, sd["fields"]):
                if f["kind"] != "bits" and not sd["union"]:
                    g = inst.offset_of(f["name"], ps * 8)
                    if g != o:
                        fails.append(("offset_of:%s" % feat, "offset_of(%s)=%r expected %d  [%s]" % (f["name"], g, o, src)))
                        break
        except Exception as x:
            fails.append((bucket_of_exception("raise:layout", x) + ":" + feat, "%r  [%s]" % (x, src)))
    data = bytes.fromhex(case["data"])
    try:
        inst = cls()
        inst.unpack(data + b"\xee" * 8, 0, ps * 8)
    except Exception as x:
        fails.append((bucket_of_exception("raise:unpack", x) + ":" + feat + pn, "%r  [%s] data=%s" % (x, src, data.hex())))
        return fails
    try:
        r = compare_struct(sd, inst, decode_vals(vals), ps, sd["name"])
    except Exception as x:
        r = None
        fails.append((bucket_of_exception("raise:read", x) + ":" + feat, "%r  [%s]" % (x, src)))
    if r:
        fails.append(("value:%s%s" % (r[0], pn), "%s  [%s] ps=%d data=%s" % (r[1], src, ps, data.hex())))
    psdep = any(f["kind"] == "raw" and f["t"] in "PlL" for f in sd["fields"]) or any(f["kind"] == "struct" for f in sd["fields"])
    if var and not (psdep and ps != struct.calcsize("P")):
        try:
            if len(inst) != len(data):
                fails.append(("len:%s%s" % (feat, pn), "len(instance)=%r expected %d  [%s]" % (len(inst), len(data), src)))
        except Exception as x:
            fails.append((bucket_of_exception("raise:len", x) + ":" + feat, "%r  [%s]" % (x, src)))
    if not sd["union"]:
        try:
            p = inst.pack(None, ps * 8)
            if p != data:
                fails.append(("pack:%s%s" % (feat, pn), "pack()=%s expected %s  [%s]%s ps=%d" % (p.hex(), data.hex(), src, " packed" if sd["packed"] else "", ps)))
        except Exception as x:
            fails.append((bucket_of_exception("raise:pack", x) + ":" + feat, "%r  [%s]" % (x, src)))
    return fails


def encode_vals(v):
    if isinstance(v, bytes):
        return {"$b": v.hex()}
    if isinstance(v, dict):
        return {k: encode_vals(x) for k, x in v.items()}
    if isinstance(v, list):
        return [encode_vals(x) for x in v]
    return v


def decode_vals(v):
    if isinstance(v, dict):
        if set(v) == {"$b"}:
            return bytes.fromhex(v["$b"])
        return {k: decode_vals(x) for k, x in v.items()}
    if isinstance(v, list):
        return [decode_vals(x) for x in v]
    return v


def run_shard(shard, tier, seed):
    from hypothesis import strategies as st

    part = Partial()
    _ctr[0] = 100000 * (shard["sub"] + 1)

    def body(rnd):
        pool = []
        for d in range(rnd.randrange(0, 3)):
            pool.append(gen_struct(rnd, d + 1, pool, False))
        sd = gen_struct(rnd, 0, pool, True)
        if not sd["union"] and rnd.random() < 0.25:
            # a packed structure holding (an array of) variable-length packed elements
            sd["packed"] = True
            sd["fields"].insert(rnd.randrange(len(sd["fields"]) + 1), dict(kind="struct", sub=gen_varchild(rnd), count=[0, 2, 3, 4][rnd.randrange(4)], name="fv"))
        ps = [4, 8][rnd.randrange(2)]
        vals = gen_values(rnd, sd, ps)
        data = pack_ref(sd, vals, ps)
        case = dict(ps=ps, vals=encode_vals(vals), data=data.hex())
        case["def"] = sd
        fs = features(sd, ps)
        part.case(dict(src=source(sd), packed=sd["packed"], ps=ps, sub=[source(p) for p in pool]), bool(fs - {"packed", "array", "long"}),
                  dict(source=source(sd).split("\n"), packed=sd["packed"], union=sd["union"], psize=ps * 8))
        for x in fs:
            part.count("feature:" + x)
        try:
            fails = check(case)
        except Exception as x:
            fails = [(bucket_of_exception("raise:check", x), repr(x))]
        seen = set()
        for b, d in fails:
            if b not in seen:
                seen.add(b)
                part.fail(b, case, d)

    campaign(st.randoms(use_true_random=False), body, N[tier], shard_seed(seed, shard["sub"]))
    return part


def replay(case):
    fails = check(case)
    want = case.get("bucket")
    for b, d in fails:
        if want is None or b == want:
            return (b, d)
    return fails[0] if fails else None
