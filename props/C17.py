"""C17 - decoding and executing any bytes never crashes; instructions are well formed.

Validity predicate over spec-guided and random byte strings for every ISA/mode:
decode returns an instruction or None and does not raise; the instruction is
well formed; renders under every formatter the module ships; survives pickle;
applying it to a fresh mapper does not raise. Collect mode, buckets keyed by
(isa, stage, exception type, innermost amoco function).
"""
import os
import pickle
import sys

from vlib import isa as visa
from vlib.runner import Partial, campaign, shard_seed, bucket_of_exception

ID = "C17"
RULE = (
    "spec-guided/random byte strings per ISA/mode/fetch endianness with a budget proportional to the number of shipped "
    "specs (so every setup function, formatter entry and semantics function is reached several times); stages: decode, "
    "well-formedness, str()/toks() under each formatter of the arch package, pickle round trip, i(mapper()). Non-trivial = "
    "the string decoded to an instruction (all later stages ran); distinct by (isa, mode, endian, bytes)."
)
ASSUMPTIONS = [
    "the 'semantics missing' path is the logger warning of icore.__call__ and is not an error",
    "a per-call wall-clock guard (harness timeout) makes a case inconclusive, never a violation",
]
N = {"quick": 1000, "thorough": 30000}
SWEEP = {"quick": 10, "thorough": 80}
BIG = {"amoco.arch.x64.cpu_x64": 10, "amoco.arch.x86.cpu_x86": 10, "amoco.arch.arm.cpu_armv7": 2, "amoco.arch.tricore.cpu": 2}
# the flagship ISAs get a larger share: prefix x operand-form combinations multiply their input space
BOOST = {"amoco.arch.x64.cpu_x64": 4, "amoco.arch.x86.cpu_x86": 4}


def shards(tier, seed):
    out = []
    for n in visa.all_names():
        k = BIG.get(n, 1)
        out += [{"isa": n, "sub": j, "nsub": k} for j in range(k)]
    return out


def formatters(I):
    from amoco.arch.core import Formatter

    pkg = ".".join(I.name.split(".")[:3])
    out = {}
    for mn, m in list(sys.modules.items()):
        if m is None or not mn.startswith(pkg) or "formats" not in mn:
            continue
        for k, v in vars(m).items():
            if isinstance(v, Formatter):
                out.setdefault(k, v)
    return out


def stages(I, b, mode, e, fmts):
    """returns (status, list of (bucket, detail)); status: none|decoded|timeout"""
    from amoco.arch.core import INSTRUCTION_TYPES
    from amoco.cas.expressions import exp, cst
    from amoco.cas.mapper import mapper

    fails = []
    tag = I.short
    I.set_mode(mode, e)
    try:
        try:
            i = I.decode(b, guard=5)
        except visa.HarnessTimeout:
            return "timeout", fails
        except Exception as x:
            I.reset_decoder()
            fails.append((tag + ":" + bucket_of_exception("decode", x), "bytes=%s %r" % (b.hex(), x)))
            return "none", fails
        if i is None:
            return "none", fails
        # well-formedness
        wf = []
        if not isinstance(i.mnemonic, str):
            wf.append("mnemonic-not-str")
        if i.type not in INSTRUCTION_TYPES:
            wf.append("type-unknown")
        if not i.length >= 1:
            wf.append("length<1")
        if not isinstance(i.operands, list):
            wf.append("operands-not-list")
        elif not all(isinstance(o, exp) for o in i.operands):
            wf.append("operand-not-exp")
        for w in wf:
            fails.append(("%s:wellformed:%s" % (tag, w), "bytes=%s mnemonic=%r operands=%r" % (b.hex(), i.mnemonic, [type(o).__name__ for o in i.operands] if isinstance(i.operands, list) else i.operands)))
        if not I.is_wasm:
            try:
                i.address = cst(0x1000, I.cpu.PC().size)
            except Exception:
                pass
        fp0 = visa.fingerprint(i)
        # format under every formatter
        cls = type(i)
        saved = cls.__dict__.get("formatter", None)
        try:
            for fname, f in sorted(fmts.items()) or [("default", None)]:
                if f is not None:
                    cls.set_formatter(f)
                try:
                    with visa.time_guard(5):
                        s = str(i)
                        t = i.toks()
                    if not isinstance(s, str):
                        fails.append(("%s:format:str-not-str:%s" % (tag, fname), "bytes=%s" % b.hex()))
                except visa.HarnessTimeout:
                    pass
                except Exception as x:
                    fails.append((tag + ":" + bucket_of_exception("format", x) + ":" + fname, "bytes=%s mnemonic=%s %r" % (b.hex(), i.mnemonic, x)))
        finally:
            if saved is not None:
                cls.formatter = saved
        # pickle round trip
        try:
            fp0 = visa.fingerprint(i)
            j = pickle.loads(pickle.dumps(i))
            fp1 = visa.fingerprint(j)
            if fp1 != fp0:
                fails.append(("%s:pickle:differs" % tag, "bytes=%s before=%r after=%r" % (b.hex(), fp0[:4], fp1[:4])))
        except Exception as x:
            fails.append((tag + ":" + bucket_of_exception("pickle", x), "bytes=%s mnemonic=%s %r" % (b.hex(), i.mnemonic, x)))
        # semantics
        if I.name not in visa.NO_SEMANTICS:
            try:
                with visa.time_guard(8):
                    m = mapper()
                    i(m)
            except visa.HarnessTimeout:
                return "timeout", fails
            except Exception as x:
                fails.append((tag + ":" + sem_bucket(x), "bytes=%s %s %r" % (b.hex(), i.mnemonic, x)))
        return "decoded", fails
    finally:
        I.reset_mode()


def sem_bucket(x):
    """semantics:ExcType:<innermost function inside amoco/arch>:<innermost amoco function>"""
    import traceback

    tb = traceback.extract_tb(sys.exc_info()[2])
    arch = [t for t in tb if "/amoco/arch/" in t.filename and not t.filename.endswith("arch/core.py")]
    inner = [t for t in tb if "/amoco/" in t.filename]
    a = arch[-1].name if arch else "?"
    t = inner[-1] if inner else tb[-1]
    return "semantics:%s:%s:%s:%s" % (type(x).__name__, a, t.filename.split("amoco/")[-1], t.name)


def limit_memory():
    try:
        import resource

        resource.setrlimit(resource.RLIMIT_AS, (6 << 30, 6 << 30))
    except Exception:
        pass


def run_shard(shard, tier, seed):
    from hypothesis import strategies as st

    limit_memory()
    part = Partial()
    I = visa.load(shard["isa"])
    fmts = formatters(I)
    part.count("formatters", len(fmts))
    modes = I.modes()
    for (mode, e) in modes:
        n = max(N[tier] // len(modes), SWEEP[tier] * BOOST.get(I.name, 1) * len(I.specs[mode])) // shard.get("nsub", 1) + 1

        def body(rnd, mode=mode, e=e):
            b = I.gen_x86_modrm(rnd, mode) if (I.is_x86 and rnd.random() < 0.3) else I.gen_bytes(rnd, mode, e)
            status, fails = stages(I, b, mode, e, fmts)
            part.count(status)
            if status == "timeout":
                return
            case = dict(isa=I.name, mode=mode, endian=e, bytes=b.hex())
            part.case(case, status == "decoded", case)
            for bucket, detail in fails:
                part.fail(bucket, dict(case, bucket=bucket), detail)

        campaign(st.randoms(use_true_random=False), body, n, shard_seed(seed, I.name, mode, e, shard.get("sub", 0)))
    return part


def replay(case):
    limit_memory()
    I = visa.load(case["isa"])
    status, fails = stages(I, bytes.fromhex(case["bytes"]), case["mode"], case["endian"], formatters(I))
    want = case.get("bucket")
    for b, d in fails:
        if want is None or b == want:
            return (b, d)
    if fails:
        return fails[0]
    return None


def shrink(case, bucket):
    from vlib.shrink import ddmin_bytes

    I = visa.load(case["isa"])
    fm = formatters(I)

    def fails(b):
        st_, fl = stages(I, b, case["mode"], case["endian"], fm)
        return any(x[0] == bucket for x in fl)

    b0 = bytes.fromhex(case["bytes"])
    if not fails(b0):
        return case
    c = dict(case)
    c["bytes"] = ddmin_bytes(b0, fails, 120).hex()
    c["bucket"] = bucket
    return c
