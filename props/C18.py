"""C18 - sweeps, blocks and control-flow graphs partition the code.

Code regions = buffers concatenated from spec-guided encodings, loaded as raw
tasks for every ISA. (a) linear sweep yields consecutive instructions whose
bytes are the memory bytes; (b) blocks recomputed from the instruction list by
the stated rule (end after a control-flow instruction, plus its delay slot):
support, length, raw(), slicing and cut at instruction boundaries; (c) blocks
obtained from getblock(start) for starts on instruction boundaries are inserted
into a cfg.graph in arbitrary order: after every insertion the nodes of the
main support are pairwise disjoint contiguous runs that together contain every
inserted instruction exactly once, and each split created an edge old -> new.
"""
from vlib import isa as visa
from vlib.runner import Partial, campaign, shard_seed, bucket_of_exception

ID = "C18"
RULE = (
    "per ISA: buffers of 4..40 generated encodings (dependency-biased generator plus control-flow instructions) ending in "
    "padding, swept from offset 0 and from random instruction boundaries; for the graph part 1..8 distinct start addresses "
    "on instruction boundaries, each inserted once as cfg.node(getblock(start)), in a drawn order. Non-trivial = an "
    "insertion starts strictly inside an existing node, or spans more than one existing node, or ends exactly at the start "
    "of an existing node; distinct by (isa, buffer, insertion order)."
)
ASSUMPTIONS = [
    "blocks are always obtained from getblock(start) and each start is inserted at most once: the domain the callers (sa/forward.py) produce",
]
N = {"quick": 200, "thorough": 6000}


def shards(tier, seed):
    return [{"isa": n} for n in visa.all_names() if "wasm" not in n and "dwarf" not in n]


def load_task(I, buf, layout=None):
    """layout: offsets at which the image is split into separate memory objects (written back to front, so that they are
    not merged): the same bytes at the same addresses, as a loader that maps a file piece by piece leaves them"""
    from amoco.system.core import load_program

    t = load_program(buf, cpu=I.cpu)
    if layout:
        from amoco.system.memory import MemoryMap

        cuts = sorted(set(x for x in layout if 0 < x < len(buf)))
        edges = [0] + cuts + [len(buf)]
        mm = MemoryMap()
        for lo, hi in reversed(list(zip(edges, edges[1:]))):
            mm.write(lo, buf[lo:hi])
        t.state.mmap = mm
    return t


def expected_blocks(ins, k):
    """instruction index ranges of the block starting at instruction k"""
    from amoco.arch.core import type_control_flow

    out = []
    delay = False
    for j in range(k, len(ins)):
        out.append(j)
        i = ins[j]
        if i.misc.get("delayed", False):
            delay = True
        elif i.type == type_control_flow or delay:
            break
    return out


def check_buffer(I, buf, starts, mode, e, layout=None):
    """returns list of (bucket, detail), stats"""
    from amoco.sa import lsweep
    from amoco import cfg
    from amoco.arch.core import type_control_flow

    fails = []
    stats = dict(instr=0, inner=0, swallow=0, adjacent=0)
    I.set_mode(mode, e)
    try:
        try:
            t = load_task(I, buf, layout)
            z = lsweep(t)
            psz = I.cpu.PC().size
            with visa.time_guard(30):
                ins = list(z.sequence(I.cpu.cst(0, psz)))
        except visa.HarnessTimeout:
            return fails, stats
        except Exception as x:
            b_ = bucket_of_exception("sweep-raise", x)
            if ":arch/" in b_:
                stats["decoder_crash_c17"] = 1  # a crash inside a spec hook is C17's business
                return fails, stats
            return [(I.short + ":" + b_, repr(x))], stats  # a crash of the sweep / fetch machinery itself is reported
        stats["instr"] = len(ins)
        # (a0) the sweep over the task's memory goes as far as the decoder goes over the bytes themselves
        ref_addrs = []
        try:
            I.reset_decoder()
            q = 0
            ml = I.d.maxlen
            while q < len(buf):
                j_ = I.decode(buf[q: q + ml], guard=5)
                if j_ is None or j_.length < 1:
                    break
                ref_addrs.append(q)
                q += j_.length
        except (Exception, visa.HarnessTimeout):
            ref_addrs = None
            I.reset_decoder()
        if ref_addrs is not None and [int(i.address) for i in ins] != ref_addrs:
            got_ = [int(i.address) for i in ins]
            k_ = next((n_ for n_, (x_, y_) in enumerate(zip(got_, ref_addrs)) if x_ != y_), min(len(got_), len(ref_addrs)))
            fails.append(("%s:sweep-differs-from-bytes%s" % (I.short, ":split-image" if layout else ""), "sweep of the task yields %d instructions, decoding the bytes %d; first difference at index %d (%s vs %s); layout %r" % (len(got_), len(ref_addrs), k_, got_[k_: k_ + 1], ref_addrs[k_: k_ + 1], layout)))
        # (a) consecutive instructions, bytes = memory
        pos = 0
        for i in ins:
            a = int(i.address)
            if a != pos:
                fails.append(("%s:sweep-gap" % I.short, "instruction at %#x follows one ending at %#x" % (a, pos)))
                break
            if i.bytes != buf[a: a + i.length]:
                fails.append(("%s:sweep-bytes" % I.short, "instruction at %#x has bytes %s, memory %s" % (a, i.bytes.hex(), buf[a: a + i.length].hex())))
                break
            pos = a + i.length
        if not ins:
            return fails, stats
        addrs = [int(i.address) for i in ins]
        # (b) blocks
        for k in sorted({0} | {s % len(ins) for s in starts}):
            try:
                b = z.getblock(addrs[k])
            except Exception as x:
                fails.append((I.short + ":" + bucket_of_exception("getblock-raise", x), repr(x)))
                continue
            exp = expected_blocks(ins, k)
            got = [int(x.address) for x in b.instr] if b is not None else None
            if got != [addrs[j] for j in exp]:
                fails.append(("%s:block-shape" % I.short, "block at %#x holds %r, rule gives %r" % (addrs[k], got, [addrs[j] for j in exp])))
                continue
            lo, hi = addrs[exp[0]], addrs[exp[-1]] + ins[exp[-1]].length
            sup = b.support
            if (int(sup[0]), int(sup[1])) != (lo, hi) or b.length != hi - lo or b.raw() != buf[lo:hi]:
                fails.append(("%s:block-extent" % I.short, "block at %#x: support %r length %d, expected [%#x,%#x)" % (lo, sup, b.length, lo, hi)))
            if len(exp) >= 2:
                m = exp[len(exp) // 2]
                sub = b[addrs[m] - lo: hi - lo]
                if sub is None or [int(x.address) for x in sub.instr] != [addrs[j] for j in exp if j >= m]:
                    fails.append(("%s:block-slice" % I.short, "slice [%#x:] of block %#x gives %r" % (addrs[m] - lo, lo, sub and [int(x.address) for x in sub.instr])))
                if ins[m].length >= 2 and b[addrs[m] - lo + 1: hi - lo] is not None:
                    fails.append(("%s:block-slice-offboundary" % I.short, "slice starting inside an instruction returned a block"))
                b2 = z.getblock(addrs[k])
                n = b2.cut(ins[m].address)
                if [int(x.address) for x in b2.instr] != [addrs[j] for j in exp if j < m] or n != len([j for j in exp if j >= m]):
                    fails.append(("%s:block-cut" % I.short, "cut at %#x keeps %r (removed %r)" % (addrs[m], [int(x.address) for x in b2.instr], n)))
        # (c) graph insertions
        G = cfg.graph()
        inserted = set()
        order = []
        seen = set()
        for s in starts:
            k = s % len(ins)
            if k in seen:
                continue
            seen.add(k)
            order.append(k)
        prev_nodes = {}
        for k in order:
            exp = expected_blocks(ins, k)
            cur = sorted((int(mo.vaddr), int(mo.vaddr) + len(mo.data.val.data)) for mo in G.support._map)
            lo, hi = addrs[exp[0]], addrs[exp[-1]] + ins[exp[-1]].length
            if any(a < lo < b_ for a, b_ in cur):
                stats["inner"] += 1
            if sum(1 for a, b_ in cur if lo <= a < hi) >= 1:
                stats["swallow"] += 1
            if any(a == hi for a, b_ in cur):
                stats["adjacent"] += 1
            flags = []
            if any(a < lo < b_ for a, b_ in cur):
                flags.append("cut")
            if cur and lo < cur[0][0]:
                flags.append("lowest")
            if any(lo < a < hi for a, b_ in cur):
                nsw = sum(1 for a, b_ in cur if lo < a < hi)
                flags.append("swallow" + ("1" if nsw == 1 else "N") + ("-sameend" if any(b_ == hi for a, b_ in cur) else ""))
            if any(a == hi for a, b_ in cur):
                flags.append("adjacent")
            shape = "+".join(flags) or "free"
            before_edges = {(int(x.v[0].data.address), int(x.v[1].data.address)) for x in G.E()} if hasattr(G, "E") else set()
            try:
                b = z.getblock(addrs[k])
                with visa.time_guard(30):
                    G.add_vertex(cfg.node(b))
            except visa.HarnessTimeout:
                return fails, stats
            except Exception as x:
                fails.append((I.short + ":" + bucket_of_exception("graph-raise", x) + ":" + shape, "inserting block %#x (order %r): %r" % (addrs[k], [addrs[j] for j in order], x)))
                return fails, stats
            inserted |= {addrs[j] for j in exp}
            got = []
            runs = []
            for mo in G.support._map:
                nd = mo.data.val
                ia = [int(x.address) for x in nd.data.instr]
                got += ia
                if not ia:
                    fails.append(("%s:graph-empty-node" % I.short, "empty node at %#x after inserting %#x" % (mo.vaddr, addrs[k])))
                    continue
                if mo.vaddr != ia[0]:
                    fails.append(("%s:graph-node-address" % I.short, "node mapped at %#x starts at %#x" % (mo.vaddr, ia[0])))
                idx = [addrs.index(a) for a in ia if a in addrs]
                if len(idx) != len(ia) or idx != list(range(idx[0], idx[0] + len(idx))):
                    fails.append(("%s:graph-node-not-contiguous" % I.short, "node %#x holds %r" % (mo.vaddr, ia)))
                runs.append((ia[0], ia[-1]))
            # every node of the support is a vertex of the graph (an object trimmed by the memory zone is not)
            try:
                verts = set(id(x) for x in G.V())
                orphan = [int(mo.vaddr) for mo in G.support._map if id(mo.data.val) not in verts]
            except Exception:
                orphan = []
            if orphan:
                fails.append(("%s:graph-support-node-not-in-graph:%s" % (I.short, shape), "after inserting %#x (order %r): the support holds nodes at %r that are not vertices of the graph" % (addrs[k], [addrs[j] for j in order], orphan[:4])))
            if len(got) != len(set(got)):
                dup = sorted(a for a in set(got) if got.count(a) > 1)
                fails.append(("%s:graph-duplicate:%s" % (I.short, shape), "instructions %r are in two nodes after inserting %#x (order %r)" % (dup[:4], addrs[k], [addrs[j] for j in order])))
            elif set(got) != inserted:
                miss = sorted(inserted - set(got))
                extra = sorted(set(got) - inserted)
                fails.append(("%s:graph-%s:%s" % (I.short, "missing" if miss else "extra", shape), "after inserting %#x (order %r): missing %r extra %r; overlay=%r" % (addrs[k], [addrs[j] for j in order], miss[:5], extra[:5], G.overlay is not None)))
            # a split (the new block starts strictly inside an existing node) creates an edge old -> new
            for a, b_ in cur:
                if a < lo < b_:
                    es = {(int(x.v[0].data.address), int(x.v[1].data.address)) for x in G.E()}
                    if (a, lo) not in es:
                        fails.append(("%s:graph-split-edge" % I.short, "node %#x was split at %#x but there is no edge between the halves (edges %r)" % (a, lo, sorted(es)[:6])))
            if fails:
                break
            if (any(f.startswith("swallow") and f != "swallow1-sameend" for f in flags) and "cut" in flags) or (any(f.startswith("swallow") for f in flags) and "lowest" in flags):
                # listed findings (C18-cut-and-swallow / C18-lowest-swallow): the support may now be
                # corrupted without the invariant showing it yet; later insertions are not judged
                stats["tainted"] = stats.get("tainted", 0) + 1
                break
        return fails, stats
    finally:
        I.reset_mode()
        I.reset_decoder()


def gen_buffer(I, rnd, mode, e):
    from amoco.arch.core import type_control_flow

    parts = []
    for _ in range(rnd.randrange(4, 41)):
        b = I.gen_instr_bytes(rnd, mode, e) if rnd.random() < 0.8 else I.gen_bytes(rnd, mode, e, tail=False)
        try:
            i = I.decode(b, guard=3)
        except (Exception, visa.HarnessTimeout):
            I.reset_decoder()
            continue
        if i is None:
            continue
        parts.append(b[: i.length])
    return b"".join(parts)


def run_shard(shard, tier, seed):
    from hypothesis import strategies as st

    part = Partial()
    I = visa.load(shard["isa"])
    mode, e = [(m, e) for (m, e) in I.modes() if e == 1 or not I.is_arm][0]
    n = N[tier] * (3 if I.is_x86 else 1)

    def body(rnd):
        I.set_mode(mode, e)
        buf = gen_buffer(I, rnd, mode, e)
        I.reset_mode()
        if len(buf) < 2:
            return
        starts = [rnd.randrange(0, 1000) for _ in range(rnd.randrange(1, 9))]
        layout = None
        if rnd.random() < 0.3:
            p0 = rnd.randrange(0, len(buf))
            layout = sorted(set([p0] + [min(len(buf) - 1, p0 + rnd.randrange(1, 4) * (j + 1)) for j in range(rnd.randrange(0, 4))]))
        case = dict(isa=I.name, mode=mode, endian=e, buf=buf.hex(), starts=starts, layout=layout)
        fails, stats = check_buffer(I, buf, starts, mode, e, layout)
        if layout:
            part.count("images-split-into-several-memory-objects")
        part.case(case, stats["inner"] + stats["swallow"] + stats["adjacent"] > 0, dict(isa=I.short, buf=buf.hex()[:80], starts=starts))
        for k, v in stats.items():
            part.count(k, v)
        seen = set()
        for b, d in fails:
            if b not in seen:
                seen.add(b)
                part.fail(b, dict(case, bucket=b), d)

    campaign(st.randoms(use_true_random=False), body, n, shard_seed(seed, I.name))
    return part


_ISA = {}


def replay(case):
    I = _ISA.get(case["isa"]) or _ISA.setdefault(case["isa"], visa.load(case["isa"]))
    fails, _ = check_buffer(I, bytes.fromhex(case["buf"]), case["starts"], case["mode"], case["endian"], case.get("layout"))
    want = case.get("bucket")
    for b, d in fails:
        if want is None or b == want:
            return (b, d)
    return fails[0] if fails else None


def shrink(case, bucket):
    from vlib.shrink import ddmin_list

    def fails(st_):
        r = replay(dict(case, starts=st_, bucket=bucket))
        return r is not None and r[0] == bucket

    if len(case["starts"]) <= 1 or not fails(case["starts"]):
        return case
    return dict(case, starts=ddmin_list(case["starts"], fails, 40))
