"""C19 - merging two maps over-approximates both.

Pairs of maps from random assignment programs (registers, memory through two
never-assigned pointer registers, a flag bit), with and without path conditions
'reg == cst'; merge(m1, m2, widening in {False, True}), complexity in
{0, 30, 100}. Oracle: for every location written by either map, the value the
location has under a concrete state sigma_k |= conds(m_k) after m_k must be
among the candidates of the merged map evaluated on the same state (a constant,
the members of a vec, or 'unknown' = top/vecw/undefined); locations written by
neither map are left untouched.
"""
from vlib import refsem as R
from vlib.runner import Partial, campaign, shard_seed, bucket_of_exception

ID = "C19"
RULE = (
    "pairs of maps of 1..5 assignments each over 6 data registers (values: small expression trees over the registers), "
    "memory cells of 8/16/32 bits at p+0..8 / q+0..4 (aligned 32-bit cells and overlapping mixed cells), one flag bit; optional path condition reg == cst per map; merge with "
    "widening off/on and complexity 0/30/100; 2 concrete states per pair, each satisfying the conditions of its map. "
    "Non-trivial = some location is written by both maps with different values, or a memory location is written, or a map "
    "carries a condition; distinct by (programs, options)."
)
ASSUMPTIONS = [
    "'unknown' (top, vecw, undefined) as merged value satisfies the property by its text",
    "pointer registers are never assigned, so a memory key p+off denotes the same concrete address before and after the map",
]
N = {"quick": 500, "thorough": 15000}
NSHARDS = 16
DREGS = ["a", "b", "c", "d", "x", "y"]
PREGS = ["p", "q"]
PVAL = {"p": 0x2000, "q": 0x2100}


def shards(tier, seed):
    return [{"sub": j} for j in range(NSHARDS)]


def gen_exp(rnd, d):
    if d == 0 or rnd.random() < 0.35:
        if rnd.random() < 0.6:
            return ["reg", DREGS[rnd.randrange(6)], 32]
        return ["cst", [0, 1, 0xFFFFFFFF, rnd.getrandbits(32), rnd.getrandbits(8)][rnd.randrange(5)], 32]
    op = "+-&|^"[rnd.randrange(5)]
    return ["bin", op, gen_exp(rnd, d - 1), gen_exp(rnd, d - 1)]


def gen_map(rnd):
    prog = []
    for _ in range(rnd.randrange(1, 6)):
        c = rnd.random()
        if c < 0.6:
            prog.append(["reg", DREGS[rnd.randrange(6)], gen_exp(rnd, rnd.randrange(0, 3))])
        elif c < 0.88:
            pr = PREGS[rnd.randrange(2)]
            prev = [i_ for i_ in prog if i_[0] == "mem"]
            if prev and rnd.random() < 0.25:
                # the same cell again with another width (narrower after wider and the reverse)
                o_ = prev[rnd.randrange(len(prev))]
                prog.append(["mem", o_[1], o_[2], gen_exp(rnd, rnd.randrange(0, 3)), [8, 16, 32][rnd.randrange(3)]])
            elif rnd.random() < 0.5:
                prog.append(["mem", pr, [0, 4, 8][rnd.randrange(3 if pr == "p" else 2)], gen_exp(rnd, rnd.randrange(0, 3)), 32])
            else:
                # cells of mixed sizes at arbitrary offsets: overlapping ranges under different keys
                prog.append(["mem", pr, rnd.randrange(0, 9 if pr == "p" else 5), gen_exp(rnd, rnd.randrange(0, 3)), [8, 16, 32][rnd.randrange(3)]])
        else:
            prog.append(["flag", gen_exp(rnd, 1)])
    cond = None
    if rnd.random() < 0.4:
        cond = [DREGS[rnd.randrange(6)], [0, 1, 7, rnd.getrandbits(32)][rnd.randrange(4)]]
    return dict(prog=prog, cond=cond)


def build_map(spec, m=None):
    from amoco.cas.mapper import mapper
    from amoco.cas import expressions as E

    if m is None:
        m = mapper()
    with E.is_reg_flags:
        fl = E.reg("flags", 32)
    zf = E.slc(fl, 6, 1, "zf")
    for ins in spec["prog"]:
        if ins[0] == "reg":
            m[E.reg(ins[1], 32)] = m(R.build(ins[2]))
        elif ins[0] == "ptr":
            # data register <- pointer register + offset
            m[E.reg(ins[1], 32)] = m(E.reg(ins[2], 32) + ins[3])
        elif ins[0] == "mem":
            sz = ins[4] if len(ins) > 4 else 32
            m[E.mem(E.reg(ins[1], 32), sz, disp=ins[2])] = m(R.build(ins[3]))[0:sz]
        else:
            m[zf] = m(R.build(ins[1]) == 0)
    if spec["cond"]:
        m.conds.append(E.reg(spec["cond"][0], 32) == E.cst(spec["cond"][1], 32))
    return m


def sigma(vals, memb):
    from amoco.cas.mapper import mapper
    from amoco.cas import expressions as E

    s = mapper()
    for k, v in vals.items():
        s[E.reg(k, 32)] = E.cst(v, 32)
    with E.is_reg_flags:
        fl = E.reg("flags", 32)
    s[fl] = E.cst(vals.get("flags", 0), 32)
    s.mmap.write(0x2000, memb)
    return s


def locations(spec):
    out = []
    for ins in spec["prog"]:
        if ins[0] == "reg":
            out.append(("reg", ins[1]))
        elif ins[0] == "mem":
            sz = ins[4] if len(ins) > 4 else 32
            for k in range(sz // 8):
                out.append(("mem", PVAL[ins[1]] + ins[2] + k))
    return out


def mem_class(specs):
    """structural class of the memory writes of the two maps"""
    keys = []
    for s in specs:
        d = {}
        for ins in s["prog"]:
            if ins[0] == "mem":
                sz = ins[4] if len(ins) > 4 else 32
                # a narrower store over a wider one keeps the entry at the wider width
                d[(ins[1], ins[2])] = max(sz, d.get((ins[1], ins[2]), 0))
        keys.append(d)
    cls = set()
    for k in set(keys[0]) & set(keys[1]):
        if keys[0][k] != keys[1][k]:
            cls.add("samekey-diffsize")
    cells = [(pr, off, off + sz // 8, w) for w, d in enumerate(keys) for (pr, off), sz in d.items()]
    for i in range(len(cells)):
        for j in range(i + 1, len(cells)):
            a, b = cells[i], cells[j]
            if a[0] == b[0] and (a[1], a[2]) != (b[1], b[2]) and a[1] < b[2] and b[1] < a[2]:
                cls.add("intra-overlap" if a[3] == b[3] else "inter-overlap")
    for s in specs:
        seen = {}
        for ins in s["prog"]:
            if ins[0] == "mem":
                k = (ins[1], ins[2])
                sz = ins[4] if len(ins) > 4 else 32
                if k in seen and seen[k] > sz:
                    cls.add("narrow-after-wide")
                seen[k] = max(sz, seen.get(k, 0))
    return "+".join(sorted(cls)) or "plain"


def read_loc(cm, loc):
    """expression held by the composed map at the location (None = cannot tell)"""
    from amoco.cas import expressions as E

    if loc[0] == "reg":
        return cm(E.reg(loc[1], 32))
    parts = cm.mmap.read(loc[1], 1)  # byte granular: sound for cells of any size and overlap
    if len(parts) == 1 and isinstance(parts[0], bytes) and len(parts[0]) == 1:
        return E.cst(parts[0][0], 8)
    if len(parts) == 1 and not isinstance(parts[0], bytes) and parts[0].size == 8:
        return parts[0]
    return None


def candidates(v):
    """set of ints | None (= unknown, satisfies the property) | 'incon'"""
    if v is None:
        return "incon"
    if v._is_top or not v._is_def:
        return None
    if v._is_cst:
        return {v.v}
    if v._is_vec:
        out = set()
        for x in v.l:
            if x._is_top or not x._is_def:
                return None
            if not x._is_cst:
                return "incon"
            out.add(x.v)
        return out
    return "incon"


def check(case):
    """returns (fails [(bucket, detail)], stats)"""
    from amoco.config import conf
    from amoco.cas.mapper import merge
    from amoco.cas import expressions as E

    fails = []
    stats = dict(checked=0, unknown=0, incon=0)
    old = conf.Cas.complexity
    conf.Cas.complexity = case["complexity"]
    try:
        specs = [case["m1"], case["m2"]]
        maps = [build_map(s) for s in specs]
        kw = dict(widening=True) if case["widening"] else {}
        try:
            mm = merge(build_map(specs[0]), build_map(specs[1]), **kw)
        except Exception as x:
            return [(bucket_of_exception("raise:merge", x), repr(x))], stats
        tag = "%s%s" % ("W" if case["widening"] else "", "C" if (specs[0]["cond"] or specs[1]["cond"]) else "")
        locs = []
        for s in specs:
            for l in locations(s):
                if l not in locs:
                    locs.append(l)
        for k in (0, 1):
            vals = dict(case["states"][k])
            vals.update(PVAL)
            if specs[k]["cond"]:
                vals[specs[k]["cond"][0]] = specs[k]["cond"][1]
            memb = bytes.fromhex(case["mem"])
            try:
                ck = sigma(vals, memb) >> maps[k]
                cmm = sigma(vals, memb) >> mm
            except Exception as x:
                fails.append((bucket_of_exception("raise:compose", x), repr(x)))
                continue
            for l in locs:
                try:
                    v = read_loc(ck, l)
                    vm = read_loc(cmm, l)
                except Exception as x:
                    fails.append((bucket_of_exception("raise:read", x), repr(x)))
                    continue
                if v is None or not v._is_cst:
                    stats["incon"] += 1
                    continue
                c = candidates(vm)
                if c is None:
                    stats["unknown"] += 1
                    continue
                if c == "incon":
                    stats["incon"] += 1
                    continue
                stats["checked"] += 1
                if v.v not in c:
                    fails.append(("missing-m%d:%s:%s" % (k + 1, l[0] if l[0] == "reg" else "mem-" + mem_class(specs), tag), "location %r: m%d gives %#x, merged candidates %s; merged entry: %s" % (l, k + 1, v.v, sorted(hex(x) for x in c), str(vm)[:200])))
        # registers written by neither map stay untouched
        written = {l[1] for l in locs if l[0] == "reg"}
        for r in DREGS:
            if r not in written:
                g = mm[E.reg(r, 32)]
                if str(g) != r:
                    fails.append(("untouched-changed:reg:%s" % tag, "register %s is written by neither map but merge maps it to %s" % (r, g)))
    finally:
        conf.Cas.complexity = old
    return fails, stats


def check_nested(case):
    """two-level merge: m12 = merge(m1, m2); the instructions of `ext` are applied to m12 (stores through the data register
    that m1 and m2 set to different pointers); final = merge(m3, m12+ext) or merge(m12+ext, m3). On a concrete state the
    candidates of each of the two merged maps (m12+ext holds alternatives itself) must be among the candidates of the merge,
    byte by byte over the whole arena and for every data register. (Whether m12+ext covers the paths m1;ext and m2;ext is the
    store semantics through an ambiguous pointer, not the merge: not judged here.)"""
    from amoco.config import conf
    from amoco.cas.mapper import merge
    from amoco.cas import expressions as E

    fails = []
    stats = dict(checked=0, unknown=0, incon=0)
    old = conf.Cas.complexity
    conf.Cas.complexity = case["complexity"]
    try:
        try:
            m12 = merge(build_map(case["m1"]), build_map(case["m2"]))
            m12e = build_map(case["ext"], m12)
            m3 = build_map(case["m3"])
            mm = merge(m3, m12e) if case["m3first"] else merge(m12e, m3)
        except Exception as x:
            return [(bucket_of_exception("raise:merge", x) + ":nested", repr(x))], stats
        # the two merged maps are m12+ext (itself holding alternatives) and m3: on a concrete state the candidates of
        # each must be among the candidates of the merge
        origs = [("m12ext", m12e), ("m3", m3)]
        for k, (nm, om) in enumerate(origs):
            vals = dict(case["states"][0])
            vals.update(PVAL)
            memb = bytes.fromhex(case["mem"])
            try:
                ck = sigma(vals, memb) >> om
                cmm = sigma(vals, memb) >> mm
            except Exception as x:
                fails.append((bucket_of_exception("raise:compose", x) + ":nested", repr(x)))
                continue
            locs = [("reg", r) for r in DREGS] + [("mem", a) for a in range(0x2000, 0x2140)]
            for l in locs:
                try:
                    v = read_loc(ck, l)
                    vm = read_loc(cmm, l)
                except Exception as x:
                    fails.append((bucket_of_exception("raise:read", x) + ":nested", repr(x)))
                    break
                co = candidates(v)
                c = candidates(vm)
                if c is None:
                    stats["unknown"] += 1
                    continue
                if co is None or co == "incon" or c == "incon":
                    stats["incon"] += 1
                    continue
                stats["checked"] += 1
                if not co <= c:
                    fails.append(("nested-missing-%s:%s:%s" % (nm, l[0], "m3-first" if case["m3first"] else "m3-second"),
                                  "location %r: %s gives %s, merged candidates %s; merged entry: %s" % (l, nm, sorted(hex(x) for x in co), sorted(hex(x) for x in c), str(vm)[:200])))
                    break
    finally:
        conf.Cas.complexity = old
    return fails, stats


def gen_nested(rnd):
    def small_map():
        prog = []
        for _ in range(rnd.randrange(0, 3)):
            if rnd.random() < 0.6:
                prog.append(["reg", DREGS[rnd.randrange(4)], gen_exp(rnd, rnd.randrange(0, 2))])
            else:
                pr = PREGS[rnd.randrange(2)]
                prog.append(["mem", pr, [0, 4, 8][rnd.randrange(3 if pr == "p" else 2)], gen_exp(rnd, 1), 32])
        return prog

    m1 = dict(prog=small_map() + [["ptr", "x", "p", 4 * rnd.randrange(0, 3)]], cond=None)
    m2 = dict(prog=small_map() + [["ptr", "x", ["p", "q"][rnd.randrange(2)], 4 * rnd.randrange(0, 3)]], cond=None)
    ext = []
    for _ in range(rnd.randrange(1, 4)):
        if rnd.random() < 0.7:
            ext.append(["mem", "x", 4 * rnd.randrange(0, 3), gen_exp(rnd, 1), 32])
        else:
            ext.append(["reg", DREGS[rnd.randrange(4)], gen_exp(rnd, 1)])
    m3 = dict(prog=small_map() + ([["mem", "p", 4 * rnd.randrange(0, 5), gen_exp(rnd, 0), 32]] if rnd.random() < 0.7 else []), cond=None)
    st_ = {r: [0, 1, 0x80000000, rnd.getrandbits(32)][rnd.randrange(4)] for r in DREGS}
    st_["flags"] = rnd.getrandbits(32)
    return dict(kind="nested", m1=m1, m2=m2, ext=dict(prog=ext, cond=None), m3=m3, m3first=rnd.random() < 0.5, complexity=[0, 0, 30, 100][rnd.randrange(4)],
                states=[st_], mem=bytes(rnd.getrandbits(8) for _ in range(0x200)).hex())


def gen_case(rnd):
    if rnd.random() < 0.25:
        return gen_nested(rnd)
    m1, m2 = gen_map(rnd), gen_map(rnd)
    states = []
    for _ in range(2):
        states.append({r: [0, 1, 0x80000000, rnd.getrandbits(32)][rnd.randrange(4)] for r in DREGS})
        states[-1]["flags"] = rnd.getrandbits(32)
    return dict(m1=m1, m2=m2, widening=rnd.random() < 0.3, complexity=[0, 0, 30, 100][rnd.randrange(4)],
                states=states, mem=bytes(rnd.getrandbits(8) for _ in range(0x200)).hex())


def nontrivial(case):
    l1, l2 = locations(case["m1"]), locations(case["m2"])
    return bool(set(l1) & set(l2)) or any(l[0] == "mem" for l in l1 + l2) or bool(case["m1"]["cond"] or case["m2"]["cond"])


def run_shard(shard, tier, seed):
    from hypothesis import strategies as st

    part = Partial()

    def body(rnd):
        case = gen_case(rnd)
        try:
            fails, stats = check_nested(case) if case.get("kind") == "nested" else check(case)
        except Exception as x:
            fails, stats = [(bucket_of_exception("raise:build", x), repr(x))], {}
        if case.get("kind") == "nested":
            part.case(dict(k="nested", m1=case["m1"], m2=case["m2"], e=case["ext"], m3=case["m3"], f=case["m3first"], c=case["complexity"]), True,
                      dict(kind="nested", m1=case["m1"]["prog"], m2=case["m2"]["prog"], ext=case["ext"]["prog"], m3=case["m3"]["prog"], m3first=case["m3first"]))
            part.count("nested-merge-cases")
        else:
            part.case(dict(m1=case["m1"], m2=case["m2"], w=case["widening"], c=case["complexity"]), nontrivial(case),
                      dict(m1=case["m1"], m2=case["m2"], widening=case["widening"], complexity=case["complexity"]))
        for k, v in stats.items():
            part.count("locations_" + k, v)
        seen = set()
        for b, d in fails:
            if b not in seen:
                seen.add(b)
                part.fail(b, case, d)

    campaign(st.randoms(use_true_random=False), body, N[tier], shard_seed(seed, shard["sub"]))
    return part


def replay(case):
    try:
        fails, _ = check_nested(case) if case.get("kind") == "nested" else check(case)
    except Exception as x:
        return (bucket_of_exception("raise:build", x), repr(x))
    return fails[0] if fails else None


def shrink(case, bucket):
    from vlib.shrink import ddmin_list

    def fails_with(c):
        try:
            f, _ = check(c)
        except Exception:
            return False
        return any(b == bucket for b, _ in f)

    c = dict(case)
    if case.get("kind") == "nested" or not fails_with(c):
        return case
    for key in ("m1", "m2"):
        def fl(p, key=key):
            c2 = dict(c)
            c2[key] = dict(c[key], prog=p)
            return fails_with(c2)
        if len(c[key]["prog"]) > 1:
            c[key] = dict(c[key], prog=ddmin_list(c[key]["prog"], fl, 40))
    return c
