"""C20 - program identification is total and reports only format errors.

read_program(bytes) on random strings, on prefix truncations of the shipped
samples and of generated ELF files, on samples / generated files with header
and table bytes corrupted (values biased to 0, ff, large counts and offsets),
on HEX / SREC text with damaged records. Oracle: the call returns an object of
a recognised class or the raw fallback; any escaping exception is a violation
(bucket = exception type + innermost amoco function); a call that does not
finish within a generous budget is reported as non-termination; a valid
generated file of one format is returned as that format.
"""
import glob
import os

from vlib import filegen as G
from vlib import isa as visa
from vlib.runner import Partial, campaign, shard_seed, bucket_of_exception

ID = "C20"
RULE = (
    "inputs: random byte strings (0..300 bytes); every kind of truncation of the shipped samples (first 4 KiB densely, "
    "then sampled lengths) and of generated ELF files; samples and generated ELF/HEX/SREC files with 1..6 bytes replaced "
    "inside the first 1.5 KiB or inside the section/program header tables (values 0, ff, 7f, 80, random, bit flips). "
    "Non-trivial = the input passes at least one format's magic check (ELF, MZ, Mach-O magics, ':' or 'S' record start); "
    "distinct by input bytes."
)
ASSUMPTIONS = [
    "unbounded allocation is semi-decided: an allocation that exceeds the worker's 4 GiB address-space limit fails with MemoryError and is reported like any escaping exception, bucketed by the parser function that asked for the memory (a tighter per-call limit was tried and withdrawn: under a cap of a few hundred MiB amoco's own error paths start failing and the campaign is no longer deterministic)",
    "non-termination is semi-decided: a call still running after 10 s (normal calls take milliseconds) is reported",
    "COFF has almost no magic: raw data returned as COFF is not a violation (only counted)",
]
N = {"quick": 900, "thorough": 40000}
NSHARDS = 16
SAMPLES = "/repo/tests/samples"
BUDGET = 10


def shards(tier, seed):
    return [{"sub": j} for j in range(NSHARDS)]


def samples():
    base = SAMPLES.replace("/repo", os.environ.get("VERIF_REPO", "/repo"), 1)
    out = []
    for f in sorted(glob.glob(base + "/**/*", recursive=True)):
        if os.path.isfile(f) and not f.endswith((".s", ".c", ".txt")):
            out.append((f.split("samples/")[1], open(f, "rb").read()))
    return out


def magic_ok(b):
    return b[:4] == b"\x7fELF" or b[:2] == b"MZ" or b[:4] in (b"\xfe\xed\xfa\xce", b"\xce\xfa\xed\xfe", b"\xfe\xed\xfa\xcf", b"\xcf\xfa\xed\xfe", b"\xca\xfe\xba\xbe") or b[:1] in (b":", b"S")


def classify(data):
    """returns ('ok', class name) | ('exc', bucket, repr) | ('hang',)"""
    from amoco.system.core import read_program

    import time

    t0 = time.time()
    try:
        with visa.time_guard(BUDGET):
            p = read_program(data)
        return ("ok", type(p).__name__)
    except visa.HarnessTimeout as t:
        return ("hang", (t.args[0] if t.args else "") or "?")
    except MemoryError as x:
        # bucket by the parser function that asked for the memory (the generic structure unpackers are skipped).
        # The frames of the failed call are still alive here: use the slack between soft and hard limit for the handling
        import resource
        import sys
        import traceback

        soft, hard = resource.getrlimit(resource.RLIMIT_AS)
        try:
            resource.setrlimit(resource.RLIMIT_AS, (hard, hard))
        except Exception:
            pass

        site = ""
        for t in reversed(traceback.extract_tb(sys.exc_info()[2])):
            if "/amoco/" in t.filename:
                rel = t.filename.split("/amoco/", 1)[1]
                if not rel.startswith("system/structs/") and rel != "system/core.py":
                    site = "%s:%s" % (rel, t.name.lstrip("_"))
                    break
        x.__traceback__ = None
        del x
        try:
            resource.setrlimit(resource.RLIMIT_AS, (soft, hard))
        except Exception:
            pass
        return ("exc", "escape:MemoryError:%s" % (site or "?"), "MemoryError (allocation beyond the address-space limit for a %d byte input)" % len(data))
    except Exception as x:
        if time.time() - t0 >= BUDGET:
            # the budget ran out and the timeout was replaced by a secondary exception on its way out (e.g. the except
            # clause of read_program naming a module whose import was interrupted): still a non-termination
            return ("hang", "?")
        return ("exc", escape_bucket(x), repr(x)[:300])


def escape_bucket(x):
    """exception type + innermost amoco function; when that function is the generic file access layer (system/core.py:
    DataIO seek/read/__getitem__) the parser function that called it is appended, so that the listed leaks of this layer
    are told apart from a new one"""
    import sys
    import traceback

    key = bucket_of_exception("escape", x)
    if ":system/core.py:" in key:
        via = ""
        for t in reversed(traceback.extract_tb(sys.exc_info()[2])):
            if "/amoco/" in t.filename:
                rel = t.filename.split("/amoco/", 1)[1]
                if not rel.startswith("system/structs/") and rel != "system/core.py":
                    return "%s@%s@%s:%s" % (key, via or "direct", rel, t.name.strip("_"))
                if rel.startswith("system/structs/"):
                    # the structure layer function the parser called (outermost one wins)
                    via = "via-%s:%s" % (rel[len("system/") :], t.name.strip("_"))
        return key + "@?@?"
    return key


def gen_input(rnd, pool, tier):
    """returns (kind, origin, bytes, expected class or None)"""
    k = rnd.random()
    if k < 0.08:
        return "random", "", bytes(rnd.getrandbits(8) for _ in range(rnd.randrange(0, 300))), None
    if k < 0.18:
        # generated valid files: must be recognised as their format
        kk = rnd.randrange(3)
        if kk == 0:
            try:
                return "valid", "elf", G.elf_build(G.elf_gen_spec(rnd)), "Elf"
            except ValueError:
                pass
        if kk == 1:
            return "valid", "hex", ("\n".join(G.hex_line(*r) for r in G.hex_gen(rnd)) + "\n").encode(), "HEX"
        return "valid", "srec", ("\n".join(G.srec_line(*r) for r in G.srec_gen(rnd)) + "\n").encode(), "SREC"
    if k < 0.30:
        try:
            base = G.elf_build(G.elf_gen_spec(rnd))
            origin = "gen-elf"
        except ValueError:
            origin, base = pool[rnd.randrange(len(pool))]
    elif k < 0.34:
        base = G.pe_build(G.pe_gen_spec(rnd))[0]
        origin = "gen-pe"
    elif k < 0.40:
        base = ("\n".join(G.hex_line(*r) for r in G.hex_gen(rnd)) + "\n").encode() if rnd.random() < 0.5 else ("\n".join(G.srec_line(*r) for r in G.srec_gen(rnd)) + "\n").encode()
        origin = "gen-records"
    else:
        # formats with few samples (PE, Mach-O) get the same share as ELF
        groups = {}
        for it in pool:
            d_ = it[1]
            g_ = "elf" if d_[:4] == b"\x7fELF" else "pe" if d_[:2] == b"MZ" else "macho" if d_[:4] in (b"\xfe\xed\xfa\xce", b"\xce\xfa\xed\xfe", b"\xfe\xed\xfa\xcf", b"\xcf\xfa\xed\xfe", b"\xca\xfe\xba\xbe") else "other"
            groups.setdefault(g_, []).append(it)
        names = sorted(groups)
        grp = groups[names[rnd.randrange(len(names))]]
        origin, base = grp[rnd.randrange(len(grp))]
    if rnd.random() < 0.4:
        n = rnd.randrange(0, min(len(base), 0x1000) + 1) if rnd.random() < 0.7 else rnd.randrange(0, len(base) + 1)
        return "truncated", origin, base[:n], None
    b = bytearray(base)
    if not b:
        return "random", "", b"", None
    tables = []
    if base[:4] == b"\x7fELF" and len(base) > 64:
        try:
            ref = G.elf_read(base)
            if ref["e_shoff"] and ref["e_shnum"]:
                tables.append((ref["e_shoff"], ref["e_shoff"] + ref["e_shnum"] * ref["e_shentsize"]))
            if ref["e_phoff"] and ref["e_phnum"]:
                tables.append((ref["e_phoff"], ref["e_phoff"] + ref["e_phnum"] * ref["e_phentsize"]))
            for s in ref["shdr"]:
                if s["sh_type"] in (2, 3, 4, 6, 9, 11) and s["sh_size"]:
                    tables.append((s["sh_offset"], s["sh_offset"] + min(s["sh_size"], 0x200)))
        except Exception:
            pass
    if base[:4] == b"\x7fELF" and len(base) > 64 and rnd.random() < 0.5:
        try:
            return "field", origin, elf_field_mutation(rnd, base), None
        except Exception:
            pass
    if base[:2] == b"MZ" and len(base) > 0x100 and rnd.random() < 0.6:
        try:
            return "field", origin, pe_field_mutation(rnd, base), None
        except Exception:
            pass
    for _ in range(rnd.randrange(1, 7)):
        if tables and rnd.random() < 0.5:
            lo, hi = tables[rnd.randrange(len(tables))]
            p = rnd.randrange(lo, max(lo + 1, min(hi, len(b))))
        else:
            p = rnd.randrange(0, min(len(b), 0x600))
        if p >= len(b):
            continue
        v = [0, 0xFF, 0x7F, 0x80, rnd.getrandbits(8), b[p] ^ (1 << rnd.randrange(8)), 1][rnd.randrange(7)]
        b[p] = v
    return "corrupted", origin, bytes(b), None


def pe_field_mutation(rnd, base):
    """replace 1..3 whole fields of the COFF header / optional header / data directories / section table of a PE file by
    boundary values"""
    import struct

    b = bytearray(base)
    n = len(base)
    lf, = struct.unpack_from("<I", base, 0x3C)
    if lf + 24 + 96 > n or base[lf: lf + 4] != b"PE\0\0":
        raise ValueError("not a PE")
    nsec, = struct.unpack_from("<H", base, lf + 6)
    optsz, = struct.unpack_from("<H", base, lf + 20)
    magic, = struct.unpack_from("<H", base, lf + 24)
    o = lf + 24
    plus = magic == 0x20B
    cands = [(lf + 4, 2), (lf + 6, 2), (lf + 20, 2), (o + 16, 4), (o + 32, 4), (o + 36, 4), (o + 56, 4), (o + 60, 4)]
    cands.append((o + 24, 8) if plus else (o + 28, 4))  # ImageBase
    nrva = o + (108 if plus else 92)
    cands.append((nrva, 4))
    ndir = min(struct.unpack_from("<I", base, nrva)[0], 16) if nrva + 4 <= n else 0
    for k in range(ndir):
        cands += [(nrva + 4 + 8 * k, 4), (nrva + 8 + 8 * k, 4)]
    so = o + optsz
    for k in range(min(nsec, 16)):
        for f in (8, 12, 16, 20, 36):
            cands.append((so + 40 * k + f, 4))
    cands = [(x, w) for x, w in cands if x + w <= n]
    for _ in range(rnd.randrange(1, 4)):
        x, w = cands[rnd.randrange(len(cands))]
        old = int.from_bytes(b[x: x + w], "little")
        top = (1 << (8 * w)) - 1
        vals = [0, 1, 2, 0xFF, top, top >> 1, (top >> 1) + 1, n, n - 1, n + 1, old + 1, old * 16, (0x7F << (8 * w - 8)) | old, old | (1 << (8 * w - 1)), rnd.getrandbits(8 * w)]
        v = 0 if rnd.random() < 0.2 else vals[rnd.randrange(len(vals))] & top  # (0 is the classic divisor / size / count)
        b[x: x + w] = v.to_bytes(w, "little")
    return bytes(b)


def elf_field_mutation(rnd, base):
    """replace 1..3 whole fields of the ELF header / a program header / a section header / a symbol by
    boundary values (0, 1, all-ones, sign bit, file length +-1, huge values that keep the low bits)"""
    import struct

    ref = G.elf_read(base)
    b = bytearray(base)
    c64 = ref["cls64"]
    e = ">" if ref["be"] else "<"
    n = len(base)
    cands = []
    # (offset, width) of the fields
    if c64:
        eh = {"e_entry": (24, 8), "e_phoff": (32, 8), "e_shoff": (40, 8), "e_phentsize": (54, 2), "e_phnum": (56, 2), "e_shentsize": (58, 2), "e_shnum": (60, 2), "e_shstrndx": (62, 2)}
        shf = {"sh_name": (0, 4), "sh_type": (4, 4), "sh_offset": (24, 8), "sh_size": (32, 8), "sh_link": (40, 4), "sh_info": (44, 4), "sh_entsize": (56, 8)}
        phf = {"p_type": (0, 4), "p_offset": (8, 8), "p_filesz": (32, 8), "p_memsz": (40, 8)}
        syf = {"st_name": (0, 4), "st_shndx": (6, 2), "st_value": (8, 8)}
    else:
        eh = {"e_entry": (24, 4), "e_phoff": (28, 4), "e_shoff": (32, 4), "e_phentsize": (42, 2), "e_phnum": (44, 2), "e_shentsize": (46, 2), "e_shnum": (48, 2), "e_shstrndx": (50, 2)}
        shf = {"sh_name": (0, 4), "sh_type": (4, 4), "sh_offset": (16, 4), "sh_size": (20, 4), "sh_link": (24, 4), "sh_info": (28, 4), "sh_entsize": (36, 4)}
        phf = {"p_type": (0, 4), "p_offset": (4, 4), "p_filesz": (16, 4), "p_memsz": (20, 4)}
        syf = {"st_name": (0, 4), "st_shndx": (14, 2), "st_value": (4, 4)}
    for k, (o, w) in eh.items():
        cands.append((o, w))
    for j in range(min(ref["e_shnum"], 64) if ref["e_shoff"] else 0):
        for k, (o, w) in shf.items():
            cands.append((ref["e_shoff"] + j * ref["e_shentsize"] + o, w))
    for j in range(min(ref["e_phnum"], 16) if ref["e_phoff"] else 0):
        for k, (o, w) in phf.items():
            cands.append((ref["e_phoff"] + j * ref["e_phentsize"] + o, w))
    for s_ in ref["shdr"]:
        if s_["sh_type"] in (2, 11) and s_["sh_entsize"]:
            for j in range(min(s_["sh_size"] // s_["sh_entsize"], 8)):
                for k, (o, w) in syf.items():
                    cands.append((s_["sh_offset"] + j * s_["sh_entsize"] + o, w))
    cands = [(o, w) for o, w in cands if o + w <= n]
    # the size / entry size / offset / link of table sections (symbols, relocations, dynamic, strings) decide how much is read
    tables = []
    for j in range(min(ref["e_shnum"], 64) if ref["e_shoff"] else 0):
        if j < len(ref["shdr"]) and ref["shdr"][j]["sh_type"] in (2, 3, 4, 6, 9, 11):
            for k in ("sh_size", "sh_entsize", "sh_offset", "sh_link"):
                o, w = shf[k]
                tables.append((ref["e_shoff"] + j * ref["e_shentsize"] + o, w))
    tables = [(o, w) for o, w in tables if o + w <= n]
    for _ in range(rnd.randrange(1, 4)):
        from_table = bool(tables) and rnd.random() < 0.35
        o, w = tables[rnd.randrange(len(tables))] if from_table else cands[rnd.randrange(len(cands))]
        old = int.from_bytes(b[o: o + w], "little" if e == "<" else "big")
        top = (1 << (8 * w)) - 1
        vals = [0, 1, 2, 0xFF, top, top >> 1, (top >> 1) + 1, n, n - 1, n + 1, old + 1, old * 16, (0x7F << (8 * w - 8)) | old, old | (1 << (8 * w - 1)), rnd.getrandbits(8 * w)]
        if from_table and rnd.random() < 0.5:
            # huge values that keep the low bits (still a multiple of the entry size, still inside alignment checks)
            vals = [(0x7F << (8 * w - 8)) | old, old | (1 << (8 * w - 1)), old + (1 << (8 * w - 4)), old + (1 << (8 * w - 12)), old + (1 << 28)]
        v = 0 if rnd.random() < 0.2 else vals[rnd.randrange(len(vals))] & top  # (0 is the classic divisor / size / count)
        b[o: o + w] = v.to_bytes(w, "little" if e == "<" else "big")
    return bytes(b)


def tighten_memory(extra=256 << 20):
    """address-space limit = what this worker uses now + 256 MiB: an allocation unrelated to the input size (the inputs are
    at most a few hundred KiB) becomes a MemoryError, which is reported like any other escaping exception"""
    import resource

    try:
        with open("/proc/self/statm") as f:
            cur = int(f.read().split()[0]) * resource.getpagesize()
        soft, hard = resource.getrlimit(resource.RLIMIT_AS)
        lim = cur + extra
        if hard != resource.RLIM_INFINITY:
            lim = min(lim, hard)
        resource.setrlimit(resource.RLIMIT_AS, (lim, hard))
    except Exception:
        pass


def relax_memory():
    import resource

    try:
        soft, hard = resource.getrlimit(resource.RLIMIT_AS)
        resource.setrlimit(resource.RLIMIT_AS, (hard, hard))
    except Exception:
        pass


def run_shard(shard, tier, seed):
    from hypothesis import strategies as st

    part = Partial()
    pool = samples()

    def body(rnd):
        kind, origin, data, expect = gen_input(rnd, pool, tier)
        if len(data) < 256 and data and os.path.exists(data):
            return  # (read_program tries open() first)
        r = classify(data)
        case = dict(kind=kind, origin=origin, hex=data.hex() if len(data) <= 0x40000 else None, n=len(data))
        part.case(data, magic_ok(data), dict(kind=kind, origin=origin, length=len(data), head=data[:16].hex()))
        part.count("input:" + kind)
        if r[0] == "ok":
            part.count("returns:" + r[1])
            if expect and r[1] != expect:
                part.fail("valid-%s-returned-as-%s" % (expect, r[1]), case, "a valid generated %s file was returned as %s" % (expect, r[1]))
        elif r[0] == "hang":
            part.fail("no-termination:%s" % r[1], case, "read_program still running after %d s (in %s; input derived from %s)" % (BUDGET, r[1], origin or "random bytes"))
        else:
            part.fail(r[1], case, r[2])

    campaign(st.randoms(use_true_random=False), body, N[tier], shard_seed(seed, shard["sub"]))
    return part


def replay(case):
    if case.get("hex") is None:
        return None
    data = bytes.fromhex(case["hex"])
    r = classify(data)
    if r[0] == "exc":
        return (r[1], r[2])
    if r[0] == "hang":
        return ("no-termination:%s" % r[1], "read_program still running after %d s (in %s)" % (BUDGET, r[1]))
    return None


def shrink(case, bucket):
    """zero out / cut what is not needed (keeps offsets meaningful: no byte deletion inside)"""
    if case.get("hex") is None or case["n"] > 0x8000:
        return case
    data = bytes.fromhex(case["hex"])

    def fails(d):
        r = classify(d)
        return (r[0] == "exc" and r[1] == bucket) or (r[0] == "hang" and bucket.startswith("no-termination"))

    if bucket.startswith("no-termination") or not fails(data):
        return case
    # truncate from the end by halves
    n = len(data)
    step = n // 2
    while step >= 1:
        if n - step >= 1 and fails(data[: n - step]):
            n -= step
        else:
            step //= 2
    return dict(case, hex=data[:n].hex(), n=n)
