#!/bin/sh
# MANIFEST.setup_cmd: offline, idempotent. Installs third-party helpers into
# /verif/.deps and builds the native x86 executor used by C06.
set -e
cd "$(dirname "$0")"
PY=/venv/bin/python
WH=/opt/veriftools/wheels
mkdir -p .deps .home build evidence replays
need=""
$PY -c "import hypothesis" 2>/dev/null || need="$need hypothesis"
PYTHONPATH=.deps $PY -c "import jsonschema" 2>/dev/null || need="$need jsonschema"
PYTHONPATH=.deps $PY -c "import atheris" 2>/dev/null || need="$need atheris"
if [ -n "$need" ]; then
  PIP_NO_INDEX=1 $PY -m pip install -q --no-index --find-links $WH --target .deps $need || echo "setup: pip install of [$need] failed (checks degrade gracefully)"
fi
if [ -f vlib/x86native/run.c ]; then
  (cc -O1 -o build/x86run vlib/x86native/run.c 2>build/x86run.log || clang -O1 -o build/x86run vlib/x86native/run.c 2>>build/x86run.log) || echo "setup: native executor not built (C06 falls back to vendored table)"
fi
echo "setup done"
