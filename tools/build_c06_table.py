#!/venv/bin/python
"""development tool: (re)build corpus/c06_x86_table.jsonl.gz = generated x86 vectors with the results this machine's
processor produced for them (vlib/x86native/run.c). amoco is not involved."""
import gzip, json, os, random, sys
V = os.path.dirname(os.path.dirname(os.path.abspath(__file__)))
sys.path[:0] = [V, os.path.join(V, ".deps")]
from vlib import x86gen as G

def main():
    n = int(sys.argv[1]) if len(sys.argv) > 1 else 24000
    rnd = random.Random(20260923)
    vs = []
    while len(vs) < n:
        v = G.gen_vector(rnd, ia32=rnd.random() < 0.3)
        if v is not None:
            vs.append(v)
    rows = []
    for i in range(0, n, 2000):
        b = vs[i:i + 2000]
        for v, r in zip(b, G.run_native(b)):
            if r is not None and r["sig"] == 0:
                rows.append(G.compact(v, r))
    with gzip.open(os.path.join(V, "corpus", "c06_x86_table.jsonl.gz"), "wt") as f:
        for r in rows:
            f.write(json.dumps(r, separators=(",", ":")) + "\n")
    print("vectors", n, "rows", len(rows))
main()
