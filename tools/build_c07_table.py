#!/venv/bin/python
"""development tool: (re)build corpus/c07_table.jsonl.gz = byte strings on which GNU objdump and
llvm-objdump agree (valid instruction, same length, same branch displacement), for 32- and 64-bit mode.
amoco is used only to enumerate the shipped specs for candidate generation, never as a judge."""
import gzip, json, os, random, sys
V = os.path.dirname(os.path.dirname(os.path.abspath(__file__)))
sys.path[:0] = [V, os.path.join(V, ".deps")]
os.environ.setdefault("AMOCO_LOG_LEVEL", "CRITICAL")
from vlib import isa, x86ref
from props import C07

def main():
    n = int(sys.argv[1]) if len(sys.argv) > 1 else 150000
    rows = []
    for mode, name in ((32, "amoco.arch.x86.cpu_x86"), (64, "amoco.arch.x64.cpu_x64")):
        I = isa.load(name)
        rnd = random.Random(20260923 + mode)
        c = C07.gen_cands(I, rnd, n)
        tot = {}
        for i in range(0, len(c), 4000):
            r, st = x86ref.eligible_rows(c[i:i + 4000], mode)
            for k, v in st.items():
                tot[k] = tot.get(k, 0) + v
            ref = dict((h, (l, d)) for h, l, d in r)
            rows += [[mode, x.hex()] + list(ref.get(x.hex(), (None, None))) for x in c[i:i + 4000]]
        print(mode, len(c), tot)
    with gzip.open(os.path.join(V, "corpus", "c07_table.jsonl.gz"), "wt") as f:
        for r in rows:
            f.write(json.dumps(r) + "\n")
    print("rows", len(rows))
main()
