#!/venv/bin/python
"""tools/c17_known.py ev1.json ev2.json ...: (re)generate the C17 entries of known_findings.json from
bucket lists observed on the unchanged tree (development aid, never run by a check)."""
import sys, json, collections, os
V = os.path.dirname(os.path.dirname(os.path.abspath(__file__)))
buckets = collections.Counter()
for f in sys.argv[1:]:
    e = json.load(open(f))
    buckets.update(e["coverage"]["failure_buckets"])
# merge with what is already listed (earlier evidence files are not kept)
_kf = json.load(open(os.path.join(V, "known_findings.json")))
old_wild = collections.defaultdict(list)
for e in _kf["findings"]:
    if e.get("property") == "C17" and e.get("status") == "open":
        for pat in e.get("buckets", []):
            if pat.endswith("*"):
                p_ = pat.split(":")
                old_wild[(p_[0], p_[1])].append(pat)
            elif pat not in buckets:
                buckets[pat] = 1
FLAGSHIP = ("x86.x86", "x64.x64", "riscv.rv32i", "riscv.rv64i", "arm.armv8", "arm.armv7", "mips.r3000", "mips.r3000LE", "sparc.v8")
groups = collections.defaultdict(list)
for b in buckets:
    p = b.split(":")
    groups[(p[0], p[1])].append(b)
entries = []
for (isa, stage), bl in sorted(groups.items()):
    pats = sorted(bl)
    wild = []
    if stage == "semantics" and isa not in FLAGSHIP:
        # crash-prone minor ISAs: one pattern per exception type when >= 4 distinct sites are known
        by = collections.defaultdict(list)
        for b in bl:
            by[b.split(":")[2]].append(b)
        pats = []
        for et, l in sorted(by.items()):
            if len(l) >= 4:
                wild.append("%s:semantics:%s:*" % (isa, et))
            else:
                pats += sorted(l)
    ex = sorted(bl, key=lambda b: -buckets[b])[:3]
    what = "%s, stage %s: %d distinct crash/ill-formedness sites on the unchanged tree (exception type : innermost arch function : innermost amoco function), e.g. %s" % (isa, stage, len(bl), "; ".join(x.split(":", 2)[2] for x in ex))
    wild = sorted(set(wild) | set(old_wild.get((isa, stage), [])))
    import fnmatch
    pats = [b for b in pats if not any(fnmatch.fnmatchcase(b, w) for w in wild)]
    entries.append(dict(id="C17-%s-%s" % (isa, stage), property="C17", status="open", buckets=wild + pats, what=what))
kf = json.load(open(os.path.join(V, "known_findings.json")))
kf["findings"] = [e for e in kf["findings"] if e.get("property") != "C17" or e.get("status") == "fixed"] + entries
json.dump(kf, open(os.path.join(V, "known_findings.json"), "w"), indent=1)
print("C17 entries:", len(entries), "buckets:", len(buckets), "wildcards:", sum(1 for e in entries for b in e["buckets"] if b.endswith("*")))
