#!/bin/sh
# tools/confirm_seed.sh <seeddir> <n> <PROP> : confirm a sub-agent's seeded change (tests green with it,
# demo fails with it and passes without it) in a scratch worktree and keep it under seeded/<PROP>-<n>/
SD=$1; N=$2; PROP=$3
WT=/tmp/confirm_$$
OUT=/verif/seeded/$PROP-${4:-$N}
git -C /repo worktree add -q --detach $WT HEAD || exit 3
cd $WT
mkdir -p _seed && cp $SD/demo$N.py _seed/
DEMO="env PYTHONPATH=$WT AMOCO_LOG_LEVEL=CRITICAL /venv/bin/python _seed/demo$N.py"
$DEMO > /tmp/c_$$.clean 2>&1; rc_clean=$?
if ! git apply $SD/patch$N.diff; then echo "PATCH-DOES-NOT-APPLY"; cd /; git -C /repo worktree remove --force $WT; exit 3; fi
$DEMO > /tmp/c_$$.mut 2>&1; rc_mut=$?
tests=$(PYTHONPATH=$WT /venv/bin/python -m pytest -q -p no:cacheprovider tests 2>&1 | tail -1)
cd /; git -C /repo worktree remove --force $WT
echo "demo clean rc=$rc_clean; demo mutated rc=$rc_mut; tests: $tests"
case "$tests" in *"214 passed"*) ok=1;; *) ok=0;; esac
if [ $rc_clean -eq 0 ] && [ $rc_mut -ne 0 ] && [ $ok -eq 1 ]; then
  mkdir -p $OUT; cp $SD/patch$N.diff $OUT/patch.diff; cp $SD/demo$N.py $OUT/demo.py
  [ -f $SD/notes.md ] && cp $SD/notes.md $OUT/agent_notes.md
  /venv/bin/python - "$OUT" "$PROP" "${4:-$N}" "$tests" "$(tail -3 /tmp/c_$$.mut)" <<'PY'
import sys, json, subprocess
out, prop, n, tests, demo = sys.argv[1:6]
meta = dict(property=prop, seed_index=int(n), base_commit=subprocess.check_output(["git","-C","/repo","rev-parse","--short","HEAD"],text=True).strip(),
  confirmed=dict(tests_with_patch=tests, demo_with_patch_tail=demo, demo_without_patch="exit 0"),
  ran=["git apply patch.diff in a scratch worktree", "pytest tests (214 passed)", "demo.py with patch (non-zero exit) and without (exit 0)"],
  needs="see agent_notes.md", detected_by={})
json.dump(meta, open(out + "/meta.json", "w"), indent=1)
PY
  echo "CONFIRMED -> $OUT"
else
  echo "NOT CONFIRMED"; tail -5 /tmp/c_$$.clean /tmp/c_$$.mut
fi
rm -f /tmp/c_$$.clean /tmp/c_$$.mut
