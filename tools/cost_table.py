#!/venv/bin/python
"""tools/cost_table.py: markdown table of what the last run of every check covered (from evidence/*.json)"""
import glob, json, os
V = os.path.dirname(os.path.dirname(os.path.abspath(__file__)))
print("| check | tier | evaluations | distinct non-trivial | hits of listed findings | wall (s) |")
print("|---|---|---|---|---|---|")
for f in sorted(glob.glob(os.path.join(V, "evidence", "C*.json"))):
    e = json.load(open(f))
    c = e["coverage"]
    print("| %s | %s | %d | %d | %d | %.0f |" % (e["property_id"], e["tier"], c["evaluations"], c["distinct_nontrivial"], sum(c.get("known_findings_hit", {}).values()), e["wall_s"]))
