#!/venv/bin/python
"""tools/findings_summary.py: markdown summary of known_findings.json (fixed and open entries per property)"""
import json, os, collections
V = os.path.dirname(os.path.dirname(os.path.abspath(__file__)))
k = json.load(open(os.path.join(V, "known_findings.json")))["findings"]
by = collections.defaultdict(lambda: dict(fixed=[], open=[]))
for e in k:
    by[e["property"]][e.get("status", "open")].append(e)
for pid in sorted(by):
    f, o = by[pid]["fixed"], by[pid]["open"]
    print("**%s** - %d repaired, %d recorded\n" % (pid, len(f), len(o)))
    for e in f:
        w = e["what"].split(" ", 3)
        print("* fixed `%s` %s" % (e.get("commit", "?"), e["what"].split(e.get("commit", "?"), 1)[-1].strip()[:260]))
    if pid == "C17" and len(o) > 12:
        n = sum(len(e.get("buckets", [])) for e in o)
        print("* open: %d entries (one per ISA module and stage: decode / wellformed / format / pickle / semantics) listing %d crash or ill-formedness sites by (exception type, innermost architecture function, innermost amoco function); see known_findings.json" % (len(o), n))
    else:
        for e in o:
            print("* open `%s`: %s" % (e["id"], e["what"][:300]))
    print()
