#!/venv/bin/python
"""tools/mutation_table.py: markdown table of the seeded changes and which checks caught them (from seeded/*/meta.json)"""
import glob, json, os, re
V = os.path.dirname(os.path.dirname(os.path.abspath(__file__)))
rows = []
for d in sorted(glob.glob(os.path.join(V, "seeded", "C*")), key=lambda p: (p.split("/")[-1].split("-")[0], int(p.split("-")[-1]))):
    name = os.path.basename(d)
    try:
        m = json.load(open(os.path.join(d, "meta.json")))
    except Exception:
        continue
    patch = open(os.path.join(d, "patch.diff")).read()
    files = sorted(set(re.findall(r"^\+\+\+ b/(\S+)", patch, re.M)))
    funcs = sorted(set(x.strip() for x in re.findall(r"^@@.*@@ (?:def |class )?([\w\.]+)", patch, re.M)))[:2]
    det = m.get("detected_by", {})
    caught = [k.split(":")[0] + (" (%s)" % ", ".join(b_.replace("|", "\\|") for b_ in v.get("buckets", [])[:2]) if v.get("buckets") else "") for k, v in det.items() if v.get("caught")]
    missed = [k.split(":")[0] for k, v in det.items() if not v.get("caught")]
    note = ""
    if m.get("superseded_by_fix"):
        note = " superseded by fix %s" % m["superseded_by_fix"]
    elif not caught:
        note = " NOT CAUGHT"
    rows.append("| %s | %s%s | %s | %s%s |" % (name, ", ".join(f.replace("amoco/", "") for f in files), (": " + ", ".join(funcs)) if funcs else "", "; ".join(caught) or "-", ", ".join(missed) or "-", note))
print("| seed | where | caught by (first buckets) | run but not caught by |")
print("|---|---|---|---|")
print("\n".join(rows))
