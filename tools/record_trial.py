#!/venv/bin/python
"""tools/record_trial.py <seeded/NAME> <CHECK-ID> [tier]: run a check against the seeded change and record the outcome in meta.json"""
import sys, json, subprocess, os, re
d, cid = sys.argv[1], sys.argv[2]
tier = sys.argv[3] if len(sys.argv) > 3 else "quick"
env = dict(os.environ, TRIAL_SHOW="3")
r = subprocess.run(["/verif/tools/trial.sh", os.path.join(d, "patch.diff"), cid, tier], capture_output=True, text=True, env=env)
out = r.stdout
m = re.search(r"violations: (\d+)", out)
nv = int(m.group(1)) if m else -1
buckets = re.findall(r"violation bucket=(\S+)", out)
meta = json.load(open(os.path.join(d, "meta.json")))
meta.setdefault("detected_by", {})["%s:%s" % (cid, tier)] = dict(violations=nv, buckets=buckets[:5], caught=nv > 0)
json.dump(meta, open(os.path.join(d, "meta.json"), "w"), indent=1)
print(d, cid, tier, "CAUGHT" if nv > 0 else "MISSED", buckets[:3])
if "HARNESS" in out: print(out[-600:])
