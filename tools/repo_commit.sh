#!/bin/sh
# tools/repo_commit.sh <message-file>: commit the working changes of /repo only if the 214 tests pass
cd /repo || exit 2
out=$(/venv/bin/python -m pytest -q -p no:cacheprovider tests 2>&1 | tail -1)
echo "$out"
case "$out" in *"214 passed"*) git commit -qa -F "$1" && git log --oneline | head -1;; *) echo "NOT COMMITTED"; exit 1;; esac
