#!/bin/sh
# tools/retrial_all.sh: run every seeded change against its home check (quick tier) and record the outcome in meta.json
cd /verif
for d in seeded/C*; do
  n=$(basename $d); id=${n%%-*}
  [ -f $d/patch.diff ] || continue
  if grep -q superseded_by_fix $d/meta.json 2>/dev/null; then echo "$n superseded"; continue; fi
  tools/record_trial.py $d $id | head -1
done
