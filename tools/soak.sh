#!/bin/sh
# tools/soak.sh "C03 C04" "2 3 7 1234": run checks at several seeds, print one line each
for id in $1; do for s in $2; do
  out=$(VERIF_SEED=$s ./check $id 2>/tmp/soak_err_$$ | grep -v "^KNOWN-FINDING" | tail -3 | tr '\n' ' ')
  echo "$id seed=$s rc=$? :: $out" | cut -c1-400
  grep -E "^violation|HARNESS" /tmp/soak_err_$$ | cut -c1-300 | head -5
done; done; rm -f /tmp/soak_err_$$
