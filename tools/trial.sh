#!/bin/sh
# tools/trial.sh <patch.diff> <ID> [tier]: apply a seeded patch to a scratch worktree, run a check against it, remove it
set -e
P=$(readlink -f "$1"); ID=$2; TIER=${3:-quick}
WT=/tmp/trial_$$
git -C /repo worktree add -q --detach $WT HEAD
( cd $WT && git apply "$P" ) || { git -C /repo worktree remove --force $WT; echo "PATCH-DOES-NOT-APPLY"; exit 3; }
cd /verif
set +e
VERIF_REPO=$WT ./check $ID --tier $TIER > /tmp/trial_$$.out 2>/tmp/trial_$$.err
rc=$?
grep -c "^VIOLATION" /tmp/trial_$$.out | sed "s/^/violations: /"
grep "^violation bucket" /tmp/trial_$$.err | cut -c1-260 | head -${TRIAL_SHOW:-4}
grep "HARNESS" /tmp/trial_$$.err | head -3
tail -1 /tmp/trial_$$.out
echo "rc=$rc"
rm -f /tmp/trial_$$.out /tmp/trial_$$.err
git -C /repo worktree remove --force $WT
