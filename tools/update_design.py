#!/venv/bin/python
"""tools/update_design.py: regenerate the generated sections of DESIGN.md (mutation table, findings summary)"""
import os, re, subprocess
V = os.path.dirname(os.path.dirname(os.path.abspath(__file__)))
p = os.path.join(V, "DESIGN.md")
s = open(p).read()
for tag, tool in (("MUTATION-TABLE", "mutation_table.py"), ("FINDINGS", "findings_summary.py"), ("COST-TABLE", "cost_table.py")):
    out = subprocess.check_output([os.path.join(V, "tools", tool)], text=True)
    s = re.sub(r"<!-- %s-BEGIN -->.*?<!-- %s-END -->" % (tag, tag), lambda m: "<!-- %s-BEGIN -->\n%s<!-- %s-END -->" % (tag, out, tag), s, flags=re.S)
open(p, "w").write(s)
print("DESIGN.md updated")
