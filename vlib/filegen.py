"""Synthesised executable files and independent struct-based readers.

ELF: elf_build(spec) -> bytes, elf_read(bytes) -> dict (the ground truth used
by the checks is what elf_read sees in the bytes, not the generator's intent).
HEX / SREC: record stream writers with checksums.
PE / Mach-O: minimal header-set writers and readers.
"""
import struct

PT_LOAD, PT_DYNAMIC, PT_INTERP, PT_NOTE, PT_PHDR, PT_TLS = 1, 2, 3, 4, 6, 7
SHT_NULL, SHT_PROGBITS, SHT_SYMTAB, SHT_STRTAB, SHT_RELA, SHT_NOBITS, SHT_REL, SHT_DYNSYM = 0, 1, 2, 3, 4, 8, 9, 11

MACHINES = {"x86": (3, 1, 0), "x64": (62, 2, 0), "arm": (40, 1, 0), "aarch64": (183, 2, 0), "sparc": (2, 1, 1),
            "mips": (8, 1, 1), "mipsel": (8, 1, 0), "riscv": (243, 1, 0), "sh": (42, 1, 1)}


def E(be):
    return ">" if be else "<"


def elf_gen_spec(rnd, machine=None, cls64=None, be=None, page=0x1000, loader=False):
    """structured ELF description; with loader=True only what the loaders accept
    (p_offset == p_vaddr mod page, no overlapping segments)"""
    if machine is not None:
        mnum, mcls, mbe = MACHINES[machine]
        cls64 = mcls == 2
        be = bool(mbe)
    else:
        mnum = [3, 62, 40, 183, 2, 8, 243, 42, 20, 0][rnd.randrange(10)]
        cls64 = rnd.random() < 0.5 if cls64 is None else cls64
        be = rnd.random() < 0.4 if be is None else be
    nseg = rnd.randrange(0, 5) if not loader else rnd.randrange(1, 4)
    segs = []
    vbase = [0x08048000, 0x400000, 0x10000, 0x100000][rnd.randrange(4)]
    off = 0x1000 if rnd.random() < 0.7 else 0x200
    vaddr = vbase
    for k in range(nseg):
        filesz = rnd.randrange(1, 0x300) if rnd.random() < 0.8 else rnd.randrange(0x1000, 0x1800)
        memsz = filesz + ([0, 0, 0x10, 0x200, 0x1300][rnd.randrange(5)])
        mode = rnd.randrange(5)
        if mode == 4 and segs and segs[-1]["type"] == PT_LOAD:
            # exactly abutting the previous segment, in the file and in memory (one linker output section split in two)
            segs[-1]["memsz"] = segs[-1]["filesz"]
            va = segs[-1]["vaddr"] + segs[-1]["filesz"]
        elif mode == 0 or mode == 4:  # page aligned
            off = (off + page - 1) & ~(page - 1)
            va = (vaddr + page - 1) & ~(page - 1)
        elif mode == 1:  # unaligned, congruent modulo page
            off = off + rnd.randrange(1, 0x40)
            va = ((vaddr + page - 1) & ~(page - 1)) + (off % page)
        elif mode == 2:  # adjacent / page sharing with the previous one
            off = off + rnd.randrange(0, 8)
            va = (vaddr & ~(page - 1)) + (off % page)
            if va < vaddr:
                va += page
        else:
            off = off + rnd.randrange(0, 0x20) * 8
            va = ((vaddr + page - 1) & ~(page - 1)) + (off % page)
        ptype = PT_LOAD
        if not loader and rnd.random() < 0.3:
            ptype = [PT_NOTE, PT_DYNAMIC, PT_PHDR, PT_TLS, 0x6474E551][rnd.randrange(5)]
        segs.append(dict(type=ptype, offset=off, vaddr=va, paddr=va, filesz=filesz, memsz=memsz, flags=rnd.randrange(1, 8),
                         align=page if ptype == PT_LOAD else 4, seed=rnd.getrandbits(16)))
        off += filesz
        vaddr = va + memsz
    nsym = rnd.randrange(0, 7)
    syms = []
    for k in range(nsym):
        typ = [2, 2, 1, 1, 0][rnd.randrange(5)]  # FUNC, OBJECT, NOTYPE
        base = segs[rnd.randrange(len(segs))]["vaddr"] if segs else vbase
        syms.append(dict(name="sym%d_%s" % (k, "fx"[rnd.randrange(2)] * rnd.randrange(1, 6)), value=base + rnd.randrange(0, 0x100),
                         size=rnd.randrange(0, 64), info=(rnd.randrange(0, 3) << 4) | typ, other=0, shndx=1))
    entry = (segs[0]["vaddr"] + rnd.randrange(0, min(segs[0]["filesz"], 0x40))) if segs else vbase
    return dict(cls64=bool(cls64), be=bool(be), machine=mnum, etype=[2, 3, 1][rnd.randrange(3)], entry=entry, segs=segs, syms=syms,
                sections=rnd.random() < 0.85 or bool(syms), dynsym=rnd.random() < 0.3 and bool(syms), extra_sections=rnd.randrange(0, 3),
                odd_section=[0, 0, 0, 0x6FFFFFF5, 0x70000003, 0x60000123][rnd.randrange(6)])


def seg_content(seg):
    s = seg["seed"]
    return bytes(((i * 7 + s * 13 + (i >> 8)) & 0xFF) for i in range(seg["filesz"]))


def elf_build(spec):
    cls64, be = spec["cls64"], spec["be"]
    e = E(be)
    ehsz, phsz, shsz = (64, 56, 64) if cls64 else (52, 32, 40)
    symsz = 24 if cls64 else 16
    segs = spec["segs"]
    phoff = ehsz if segs else 0
    end = ehsz + len(segs) * phsz
    for s in segs:
        end = max(end, s["offset"] + s["filesz"])
    body = bytearray(end)
    for s in segs:
        if s["offset"] < ehsz + len(segs) * phsz:
            raise ValueError("segment over headers")
        body[s["offset"]: s["offset"] + s["filesz"]] = seg_content(s)
    shdrs = []
    shstr = bytearray(b"\0")
    strtab = bytearray(b"\0")

    def name(n):
        o = len(shstr)
        shstr.extend(n.encode() + b"\0")
        return o

    def sh(nm, typ, flags, addr, off, size, link, info, align, entsize):
        shdrs.append((nm, typ, flags, addr, off, size, link, info, align, entsize))

    shoff = 0
    if spec["sections"]:
        sh(0, SHT_NULL, 0, 0, 0, 0, 0, 0, 0, 0)
        if segs:
            sh(name(".text"), SHT_PROGBITS, 6, segs[0]["vaddr"], segs[0]["offset"], segs[0]["filesz"], 0, 0, 16, 0)
        else:
            sh(name(".text"), SHT_PROGBITS, 6, spec["entry"], 0, 0, 0, 0, 16, 0)
        if spec.get("odd_section"):
            # a section of a type outside the generic ABI (processor / OS specific range): readers skip what they do not know
            sh(name(".odd"), spec["odd_section"], 0, 0, 0, 0, 0, 0, 1, 0)
        for k in range(spec["extra_sections"]):
            if len(segs) > k + 1:
                s = segs[k + 1]
                sh(name(".data%d" % k), SHT_PROGBITS, 3, s["vaddr"], s["offset"], s["filesz"], 0, 0, 8, 0)
            else:
                sh(name(".bss%d" % k), SHT_NOBITS, 3, 0x600000 + k * 0x100, 0, 0x40, 0, 0, 8, 0)

        def pad(n):
            while len(body) % n:
                body.append(0)

        def sym(nm, value, size, info, other, shndx):
            if cls64:
                return struct.pack(e + "IBBHQQ", nm, info, other, shndx, value, size)
            return struct.pack(e + "IIIBBH", nm, value, size, info, other, shndx)

        symtab = bytearray(sym(0, 0, 0, 0, 0, 0))
        for s in spec["syms"]:
            o = len(strtab)
            strtab.extend(s["name"].encode() + b"\0")
            symtab += sym(o, s["value"], s["size"], s["info"], s["other"], s["shndx"])
        if spec["syms"]:
            pad(8)
            sym_off = len(body)
            body += symtab
            str_off = len(body)
            body += strtab
            symidx = len(shdrs)
            sh(name(".dynsym" if spec["dynsym"] else ".symtab"), SHT_DYNSYM if spec["dynsym"] else SHT_SYMTAB, 0, 0, sym_off, len(symtab), symidx + 1, 1, 8, symsz)
            sh(name(".dynstr" if spec["dynsym"] else ".strtab"), SHT_STRTAB, 0, 0, str_off, len(strtab), 0, 0, 1, 0)
        shstrndx = len(shdrs)
        nm = name(".shstrtab")
        shstr_off = len(body)
        body += shstr
        sh(nm, SHT_STRTAB, 0, 0, shstr_off, len(shstr), 0, 0, 1, 0)
        pad(8)
        shoff = len(body)
        for (nm, typ, flags, addr, off, size, link, info, align, entsize) in shdrs:
            if cls64:
                body += struct.pack(e + "IIQQQQIIQQ", nm, typ, flags, addr, off, size, link, info, align, entsize)
            else:
                body += struct.pack(e + "IIIIIIIIII", nm, typ, flags, addr, off, size, link, info, align, entsize)
    else:
        shstrndx = 0
    ident = b"\x7fELF" + bytes([2 if cls64 else 1, 2 if be else 1, 1, 0, 0]) + b"\0" * 7
    if cls64:
        eh = ident + struct.pack(e + "HHIQQQIHHHHHH", spec["etype"], spec["machine"], 1, spec["entry"], phoff, shoff, 0, ehsz, phsz, len(segs), shsz, len(shdrs), shstrndx)
    else:
        eh = ident + struct.pack(e + "HHIIIIIHHHHHH", spec["etype"], spec["machine"], 1, spec["entry"], phoff, shoff, 0, ehsz, phsz, len(segs), shsz, len(shdrs), shstrndx)
    body[0: len(eh)] = eh
    for k, s in enumerate(segs):
        if cls64:
            ph = struct.pack(e + "IIQQQQQQ", s["type"], s["flags"], s["offset"], s["vaddr"], s["paddr"], s["filesz"], s["memsz"], s["align"])
        else:
            ph = struct.pack(e + "IIIIIIII", s["type"], s["offset"], s["vaddr"], s["paddr"], s["filesz"], s["memsz"], s["flags"], s["align"])
        body[phoff + k * phsz: phoff + (k + 1) * phsz] = ph
    return bytes(body)


def elf_read(d):
    """independent reader: dict of header fields, program headers, section headers (with names), symbols"""
    if d[:4] != b"\x7fELF":
        raise ValueError("not ELF")
    cls64 = d[4] == 2
    e = "<" if d[5] == 1 else ">"
    if cls64:
        (etype, machine, version, entry, phoff, shoff, flags, ehsize, phentsize, phnum, shentsize, shnum, shstrndx) = struct.unpack_from(e + "HHIQQQIHHHHHH", d, 16)
    else:
        (etype, machine, version, entry, phoff, shoff, flags, ehsize, phentsize, phnum, shentsize, shnum, shstrndx) = struct.unpack_from(e + "HHIIIIIHHHHHH", d, 16)
    out = dict(cls64=cls64, be=(e == ">"), e_type=etype, e_machine=machine, e_version=version, e_entry=entry, e_phoff=phoff, e_shoff=shoff,
               e_flags=flags, e_ehsize=ehsize, e_phentsize=phentsize, e_phnum=phnum, e_shentsize=shentsize, e_shnum=shnum, e_shstrndx=shstrndx)
    ph = []
    for k in range(phnum if phoff else 0):
        o = phoff + k * phentsize
        if cls64:
            t, fl, off, va, pa, fs, ms, al = struct.unpack_from(e + "IIQQQQQQ", d, o)
        else:
            t, off, va, pa, fs, ms, fl, al = struct.unpack_from(e + "IIIIIIII", d, o)
        ph.append(dict(p_type=t, p_flags=fl, p_offset=off, p_vaddr=va, p_paddr=pa, p_filesz=fs, p_memsz=ms, p_align=al))
    out["phdr"] = ph
    shl = []
    for k in range(shnum if shoff else 0):
        o = shoff + k * shentsize
        if cls64:
            nm, typ, fl, addr, off, size, link, info, align, entsize = struct.unpack_from(e + "IIQQQQIIQQ", d, o)
        else:
            nm, typ, fl, addr, off, size, link, info, align, entsize = struct.unpack_from(e + "IIIIIIIIII", d, o)
        shl.append(dict(sh_name=nm, sh_type=typ, sh_flags=fl, sh_addr=addr, sh_offset=off, sh_size=size, sh_link=link, sh_info=info, sh_addralign=align, sh_entsize=entsize))
    if shl and 0 < shstrndx < len(shl):
        t = shl[shstrndx]
        tab = d[t["sh_offset"]: t["sh_offset"] + t["sh_size"]]
        for s in shl:
            s["name"] = tab[s["sh_name"]:].split(b"\0")[0].decode("latin1")
    out["shdr"] = shl
    syms = []
    for s in shl:
        if s["sh_type"] in (SHT_SYMTAB, SHT_DYNSYM) and s["sh_entsize"]:
            st = shl[s["sh_link"]]
            stab = d[st["sh_offset"]: st["sh_offset"] + st["sh_size"]]
            for k in range(s["sh_size"] // s["sh_entsize"]):
                o = s["sh_offset"] + k * s["sh_entsize"]
                if cls64:
                    nm, info, other, shndx, value, size = struct.unpack_from(e + "IBBHQQ", d, o)
                else:
                    nm, value, size, info, other, shndx = struct.unpack_from(e + "IIIBBH", d, o)
                syms.append(dict(table=s.get("name"), st_name=nm, st_value=value, st_size=size, st_info=info, st_other=other, st_shndx=shndx,
                                 name=stab[nm:].split(b"\0")[0].decode("latin1")))
    out["syms"] = syms
    return out


# ---- Intel HEX / S-records -----------------------------------------------------


def hex_line(rtype, addr, data):
    rec = bytes([len(data), (addr >> 8) & 0xFF, addr & 0xFF, rtype]) + data
    cs = (-sum(rec)) & 0xFF
    return ":" + (rec + bytes([cs])).hex().upper()


def hex_gen(rnd):
    """list of records (type, addr, data) with correct payload sizes for their type"""
    recs = []
    nxt = prv = None
    for _ in range(rnd.randrange(1, 8)):
        k = rnd.random()
        if k < 0.6:
            # data records usually follow each other without a gap
            d = bytes(rnd.getrandbits(8) for _ in range(rnd.randrange(1, 17) if rnd.random() < 0.7 else rnd.randrange(1, 4)))
            k2 = rnd.random()
            if nxt is not None and nxt < 0xFFF0 and k2 < 0.4:
                a = nxt  # right after the previous record
            elif prv is not None and prv - len(d) >= 0 and k2 < 0.65:
                a = prv - len(d)  # right before it (written back to front)
            elif nxt is not None and nxt < 0xFFE0 and k2 < 0.8:
                a = nxt + rnd.randrange(1, 7)  # after a hole of a few bytes
            else:
                a = rnd.getrandbits(16)
            recs.append((0, a, d))
            nxt = a + len(d)
            prv = a
        elif k < 0.7:
            recs.append((2, 0, bytes(rnd.getrandbits(8) for _ in range(2))))
        elif k < 0.8:
            recs.append((4, 0, bytes(rnd.getrandbits(8) for _ in range(2))))
        elif k < 0.9:
            recs.append((3, 0, bytes(rnd.getrandbits(8) for _ in range(4))))
        else:
            recs.append((5, 0, bytes(rnd.getrandbits(8) for _ in range(4))))
    recs.append((1, 0, b""))
    return recs


def srec_line(rtype, addr, data):
    alen = {0: 2, 1: 2, 2: 3, 3: 4, 5: 2, 6: 3, 7: 4, 8: 3, 9: 2}[rtype]
    rec = bytes([alen + len(data) + 1]) + addr.to_bytes(alen, "big") + data
    cs = (~sum(rec)) & 0xFF
    return "S%d" % rtype + (rec + bytes([cs])).hex().upper()


def srec_gen(rnd):
    recs = [(0, 0, b"HDR")]
    nxt = prv = None
    for _ in range(rnd.randrange(1, 7)):
        t = [1, 2, 3][rnd.randrange(3)]
        alen = {1: 2, 2: 3, 3: 4}[t]
        # data records usually follow each other without a gap
        d = bytes(rnd.getrandbits(8) for _ in range(rnd.randrange(1, 17) if rnd.random() < 0.7 else rnd.randrange(1, 4)))
        k2 = rnd.random()
        if nxt is not None and nxt < min(0xFFF0, (1 << (8 * alen)) - 32) and k2 < 0.4:
            a = nxt
        elif prv is not None and 0 <= prv - len(d) < (1 << (8 * alen)) - 32 and k2 < 0.65:
            a = prv - len(d)
        elif nxt is not None and nxt < min(0xFFE0, (1 << (8 * alen)) - 48) and k2 < 0.8:
            a = nxt + rnd.randrange(1, 7)
        else:
            a = rnd.getrandbits(8 * alen)
        recs.append((t, a, d))
        nxt = a + len(d)
        prv = a
    t = [9, 8, 7][rnd.randrange(3)]
    recs.append((t, rnd.getrandbits(8 * {9: 2, 8: 3, 7: 4}[t]), b""))
    return recs


# ---------------------------------------------------------------------------
# PE (PE32 / PE32+) synthesis: the ground truth is the spec itself


def pe_gen_spec(rnd):
    plus = rnd.random() < 0.5
    ndir = [16, 16, 16, 0, 2, 5, 10, 15][rnd.randrange(8)]
    pad = [0, 0, 0, 8, 16, 0x20][rnd.randrange(6)]
    falign = 0x200
    salign = 0x1000
    nsec = rnd.randrange(0, 5)
    secs = []
    rva = salign
    for k in range(nsec):
        raw = [0, 0x10, 0x200, 0x233, 0x400][rnd.randrange(5)]
        vs = [raw, raw + 0x100, max(1, raw // 2), 0x1800][rnd.randrange(4)] if raw else 0x300
        secs.append(dict(name=(".s%d" % k).encode() + bytes(rnd.randrange(0, 2)), vsize=vs, rva=rva, rawsize=raw, seed=rnd.getrandbits(16),
                         chars=[0x60000020, 0xC0000040, 0x40000040, 0xC0000080][rnd.randrange(4)]))
        rva += (max(vs, raw, 1) + salign - 1) // salign * salign
    base = [0x400000, 0x10000000, 0x140000000 if plus else 0x1000000, 0x10000][rnd.randrange(4)]
    ep = (secs[0]["rva"] + rnd.randrange(0, max(1, secs[0]["vsize"]))) if secs else 0
    return dict(plus=plus, ndir=ndir, pad=pad, lfanew=[0x40, 0x80, 0xE8, 0x100][rnd.randrange(4)], machine=0x8664 if plus else 0x14C, secs=secs,
                base=base, ep=ep, falign=falign, salign=salign, size_of_image=rva, stamp=rnd.getrandbits(32))


def pe_build(spec):
    """returns (bytes, truth) ; truth = dict(optsz, secs=[(name, vsize, rva, rawsize, rawptr)], ...)"""
    plus = spec["plus"]
    dos = bytearray(b"MZ" + bytes(spec["lfanew"] - 2))
    struct.pack_into("<I", dos, 0x3C, spec["lfanew"])
    optfixed = 112 if plus else 96
    optsz = optfixed + 8 * spec["ndir"] + spec["pad"]
    nsec = len(spec["secs"])
    hdr_end = spec["lfanew"] + 24 + optsz + 40 * nsec
    size_of_headers = (hdr_end + spec["falign"] - 1) // spec["falign"] * spec["falign"]
    coff = b"PE\0\0" + struct.pack("<HHIIIHH", spec["machine"], nsec, spec["stamp"], 0, 0, optsz, 0x22 if plus else 0x102)
    if plus:
        opt = struct.pack("<HBBIIIII", 0x20B, 14, 0, 0x200, 0x200, 0, spec["ep"], 0x1000)
        opt += struct.pack("<QIIHHHHHHIIIIHHQQQQII", spec["base"], spec["salign"], spec["falign"], 6, 0, 0, 0, 6, 0, 0, spec["size_of_image"], size_of_headers, 0, 3, 0x8160,
                           0x100000, 0x1000, 0x100000, 0x1000, 0, spec["ndir"])
    else:
        opt = struct.pack("<HBBIIIIII", 0x10B, 14, 0, 0x200, 0x200, 0, spec["ep"], 0x1000, 0x2000)
        opt += struct.pack("<IIIHHHHHHIIIIHHIIIIII", spec["base"], spec["salign"], spec["falign"], 6, 0, 0, 0, 6, 0, 0, spec["size_of_image"], size_of_headers, 0, 3, 0x8140,
                           0x100000, 0x1000, 0x100000, 0x1000, 0, spec["ndir"])
    assert len(opt) == optfixed, len(opt)
    opt += bytes(8 * spec["ndir"]) + b"\xEE" * spec["pad"]
    table = b""
    raw = b""
    ptr = size_of_headers
    truth = []
    for s in spec["secs"]:
        rs = (s["rawsize"] + spec["falign"] - 1) // spec["falign"] * spec["falign"] if s["rawsize"] else 0
        pr = ptr if rs else 0
        body = bytes((s["seed"] + 7 * i) & 0xFF for i in range(s["rawsize"])) + bytes(rs - s["rawsize"])
        raw += body
        ptr += rs
        table += struct.pack("<8sIIIIIIHHI", s["name"][:8], s["vsize"], s["rva"], rs, pr, 0, 0, 0, 0, s["chars"])
        truth.append((s["name"][:8].rstrip(b"\0"), s["vsize"], s["rva"], rs, pr))
    head = bytes(dos) + coff + opt + table
    head += bytes(size_of_headers - len(head))
    return head + raw, dict(optsz=optsz, secs=truth, base=spec["base"], ep=spec["ep"], machine=spec["machine"], magic=0x20B if plus else 0x10B, nsec=nsec)
