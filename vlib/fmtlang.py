"""Independent interpreter of the ispec format language, written from the
class docstring of amoco.arch.core.ispec (regex based, shares no code with it).

   LEN ('<'|'>')? '[' FORMAT ']' ('+'|'&')?

interp(fmt) -> Spec(size, variable, fix, mask, fields, direction, prefix, suffix)
with bit index 0 = LSB of the instruction word; fields[name] = (opt, lo, hi)
where hi is None for a (*) directive (everything above lo up to the end of
the supplied buffer).
"""
import collections
import re

TOK = re.compile(r"\s*(?:(\{[0-9a-fA-F]{2}\})|([01-])|([.~#=]?)([A-Za-z_][A-Za-z0-9_]*)(?:\(\s*([1-9][0-9]*|[01]|\*)\s*\))?)")
HEAD = re.compile(r"\s*([1-9][0-9]*|\*)\s*([<>]?)\s*\[(.*)\]\s*(\+?)\s*(&?)\s*$", re.S)

Spec = collections.namedtuple("Spec", "size variable fix mask fields direction prefix suffix")


def parse(fmt):
    m = HEAD.match(fmt)
    if not m:
        raise ValueError("head:" + fmt)
    length, d, body, pfx, sfx = m.groups()
    d = d or "<"
    toks = []
    pos = 0
    body = body.strip()
    while pos < len(body):
        t = TOK.match(body, pos)
        if not t or t.end() == pos:
            raise ValueError("tok@%d:%s" % (pos, body))
        pos = t.end()
        if t.group(1):
            toks.append(("byte", int(t.group(1)[1:3], 16)))
        elif t.group(2):
            toks.append(("bit", t.group(2)))
        else:
            n = t.group(5)
            n = 1 if n is None else ("*" if n == "*" else int(n))
            toks.append(("fld", t.group(3), t.group(4), n))
        while pos < len(body) and body[pos].isspace():
            pos += 1
    return length, d, toks, bool(pfx), bool(sfx)


def interp(fmt):
    length, d, toks, pfx, sfx = parse(fmt)

    def w(t):
        if t[0] == "byte":
            return 8
        if t[0] == "bit":
            return 1
        return 0 if (t[1] == "=" or t[3] == "*") else t[3]

    total = sum(w(t) for t in toks)
    variable = length == "*"
    size = total if variable else int(length)
    fix = mask = 0
    fields = {}
    p = 0  # number of bits written so far (cursor in written order)
    for t in toks:
        if t[0] == "byte":
            lo = p if d == ">" else size - p - 8
            fix |= t[1] << lo
            mask |= 0xFF << lo
            p += 8
        elif t[0] == "bit":
            lo = p if d == ">" else size - p - 1
            if t[1] != "-":
                mask |= 1 << lo
                fix |= int(t[1]) << lo
            p += 1
        else:
            _, opt, name, n = t
            if n == "*":
                # all remaining bits towards the MSB (documented only as the most
                # significant directive): from the cursor to the end of the buffer
                lo = p if d == ">" else size - p
                fields[name] = (opt, lo, None)
            elif opt == "=":
                # overlapping: the n bits written immediately before the cursor
                lo = p - n if d == ">" else size - p
                fields[name] = (opt, lo, lo + n)
            else:
                lo = p if d == ">" else size - p - n
                fields[name] = (opt, lo, lo + n)
                p += n
    return Spec(size, variable, fix, mask, fields, d, pfx, sfx)


def field_value(sp, name, full, fullsize):
    """expected delivered value of field `name` for the word `full` (int, LSB=bit0,
    fullsize bits = instruction word followed by trailing bytes for variable specs)"""
    opt, lo, hi = sp.fields[name]
    h = fullsize if hi is None else hi
    n = max(h - lo, 0)
    v = (full >> lo) & ((1 << n) - 1) if n else 0
    if "~" in opt:
        return ("bits", v, n)
    if "#" in opt:
        bits = "".join(str((v >> k) & 1) for k in range(n))  # LSB first
        return ("str", bits if sp.direction == ">" else bits[::-1])
    return ("int", v)


def self_test():
    # examples of the docstring
    s = interp("32[ .cond(4) 101 1 imm24(24) ]")
    assert s.size == 32 and s.mask == 0x0F000000 and s.fix == 0x0B000000
    assert s.fields["cond"] == (".", 28, 32) and s.fields["imm24"] == ("", 0, 24)
    a = interp("8>[{2f}]")
    b = interp("8>[ 1111 0100 ]")
    c = interp("8<[ 0010 1111 ]")
    assert a.fix == b.fix == c.fix == 0x2F and a.mask == b.mask == c.mask == 0xFF
    v = interp("*>[ {0f}{a4} RM(3) REG(3) Mod(2) ~data(*) ]")
    assert v.variable and v.size == 24 and v.fields["data"] == ("~", 24, None) and v.fields["Mod"] == ("", 22, 24)
    return True
