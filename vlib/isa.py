"""ISA universe, spec snapshots, spec-guided byte generators, decode helper."""
import importlib
import os
import re

os.environ.setdefault("AMOCO_LOG_LEVEL", "CRITICAL")

# cpu module -> (spec modules in disassembler order)
CPUS = {
    "amoco.arch.arm.cpu_armv7": ["amoco.arch.arm.v7.spec_armv7", "amoco.arch.arm.v7.spec_thumb"],
    "amoco.arch.arm.cpu_armv8": ["amoco.arch.arm.v8.spec_armv8"],
    "amoco.arch.dwarf.cpu": ["amoco.arch.dwarf.spec"],
    "amoco.arch.eBPF.cpu": ["amoco.arch.eBPF.spec"],
    "amoco.arch.eBPF.cpu_bpf": ["amoco.arch.eBPF.spec_bpf"],
    "amoco.arch.mips.cpu_r3000": ["amoco.arch.mips.r3000.spec"],
    "amoco.arch.mips.cpu_r3000LE": ["amoco.arch.mips.r3000.spec"],
    "amoco.arch.msp430.cpu": ["amoco.arch.msp430.spec_msp430"],
    "amoco.arch.pic.cpu_pic18f46k22": ["amoco.arch.pic.F46K22.spec_pic18"],
    "amoco.arch.ppc32.cpu": ["amoco.arch.ppc32.spec_booke"],
    "amoco.arch.riscv.cpu_rv32i": ["amoco.arch.riscv.rv32i.spec_rv32i"],
    "amoco.arch.riscv.cpu_rv64i": ["amoco.arch.riscv.rv64i.spec_rv64i"],
    "amoco.arch.sparc.cpu_v8": ["amoco.arch.sparc.spec_v8"],
    "amoco.arch.superh.cpu_sh2": ["amoco.arch.superh.sh2.spec_sh2"],
    "amoco.arch.tricore.cpu": ["amoco.arch.tricore.spec"],
    "amoco.arch.v850.cpu_v850e2s": ["amoco.arch.v850.spec_v850e2s"],
    "amoco.arch.w65c02.cpu": ["amoco.arch.w65c02.spec"],
    "amoco.arch.wasm.cpu": ["amoco.arch.wasm.spec"],
    "amoco.arch.x64.cpu_x64": ["amoco.arch.x64.spec_ia32e"],
    "amoco.arch.x86.cpu_x86": ["amoco.arch.x86.spec_ia32"],
    "amoco.arch.z80.cpu_gb": ["amoco.arch.z80.spec_gb"],
    "amoco.arch.z80.cpu_z80": ["amoco.arch.z80.spec_mostek"],
}
# these three do not import on the pinned tree and are outside "every ISA module"
NOT_IMPORTABLE = ["amoco.arch.avr.cpu", "amoco.arch.ppc32.cpu_e200", "amoco.arch.superh.cpu_sh4"]
NO_SEMANTICS = ["amoco.arch.ppc32.cpu"]

SHORT = {n: n.replace("amoco.arch.", "").replace(".cpu_", ".").replace(".cpu", "") for n in CPUS}
X86_PREFIXES = [0x66, 0x67, 0xF2, 0xF3, 0x2E, 0x36, 0x3E, 0x26, 0x64, 0x65, 0xF0]
REX = list(range(0x40, 0x50))
X86_WEIGHTED = [0x66, 0x66, 0x66, 0x67, 0x67, 0xF2, 0xF3, 0xF3]


class HarnessTimeout(BaseException):
    pass


class time_guard(object):
    """SIGALRM based guard; a hit means 'inconclusive', never a violation"""

    def __init__(self, seconds):
        self.seconds = seconds

    def _raise(self, signum=None, frame=None):
        if not getattr(self, "active", False):
            return  # a re-fire that arrives while (or after) the guarded block is being left: ignore
        # a check may have narrowed the address-space limit (C20): give the harness room again first, otherwise
        # raising the timeout can itself fail with MemoryError and the guard never gets through
        try:
            import resource

            soft, hard = resource.getrlimit(resource.RLIMIT_AS)
            if soft != hard:
                if getattr(self, "soft0", None) is None:
                    self.soft0 = soft
                resource.setrlimit(resource.RLIMIT_AS, (hard, hard))
        except Exception:
            pass
        # where the code under test was when the budget ran out (innermost amoco frame)
        # (generic helpers - the structure unpackers, the file wrapper - are skipped when a caller is more specific)
        site = generic = ""
        f = frame
        while f is not None:
            fn = f.f_code.co_filename
            if "/amoco/" in fn:
                rel = fn.split("/amoco/", 1)[1]
                here = "%s:%s" % (rel, f.f_code.co_name.lstrip("_"))
                if rel.startswith("system/structs/") or rel == "system/core.py":
                    generic = generic or here
                else:
                    site = here
                    break
            f = f.f_back
        raise HarnessTimeout(site or generic)

    def __enter__(self):
        import signal, threading

        self.on = self.seconds and threading.current_thread() is threading.main_thread()
        if self.on:
            self.active = True
            self.old = signal.signal(signal.SIGALRM, self._raise)
            # re-fires: the first HarnessTimeout may be swallowed where Python ignores exceptions (gc callbacks, __del__)
            signal.setitimer(signal.ITIMER_REAL, self.seconds, 0.5)

    def __exit__(self, *a):
        import signal

        self.active = False  # first: from here on the handler does nothing
        if self.on:
            signal.setitimer(signal.ITIMER_REAL, 0)
            signal.signal(signal.SIGALRM, self.old)
            if getattr(self, "soft0", None) is not None:
                try:
                    import resource

                    soft, hard = resource.getrlimit(resource.RLIMIT_AS)
                    resource.setrlimit(resource.RLIMIT_AS, (self.soft0, hard))
                except Exception:
                    pass
                self.soft0 = None
        return False


def flat(fl):
    f, l = fl
    if f == 0:
        return list(l)
    r = []
    for v in l.values():
        r += flat(v)
    return r


class Isa(object):
    """one cpu module, loaded with its spec registration order snapshotted"""

    def __init__(self, name):
        self.name = name
        self.short = SHORT[name]
        self.snap = []
        for sm in CPUS[name]:
            m = importlib.import_module(sm)
            self.snap.append(list(m.ISPECS))  # registration order (if cpu not yet imported)
        self.cpu = importlib.import_module(name)
        self.d = self.cpu.disassemble
        self.nmodes = len(self.d.specs)
        self.is_x86 = name.endswith("cpu_x86") or name.endswith("cpu_x64")
        self.is_x64 = name.endswith("cpu_x64")
        self.is_wasm = "wasm" in name
        self.is_arm = ".arm." in name
        self.specs = [flat(t) for t in self.d.specs]
        self.has_prefix = any(s.pfx is True for S in self.specs for s in S)

    # ---- modes -----------------------------------------------------------
    def modes(self):
        """list of (mode index, fetch endianness) this module can be put in"""
        out = []
        for m in range(self.nmodes):
            if self.is_arm:
                out.append((m, 1))
                out.append((m, -1))
            else:
                out.append((m, self.d.endian()))
        return out

    def set_mode(self, mode, endian):
        if self.is_arm:
            it = self.cpu.internals
            if "isetstate" in it:
                it["isetstate"] = mode
            it["ibigend"] = 0 if endian == 1 else 1

    def reset_mode(self):
        if self.is_arm:
            it = self.cpu.internals
            if "isetstate" in it:
                it["isetstate"] = 0
            it["ibigend"] = 0
            it["endianstate"] = 0

    # ---- decode the way CoreExec.read_instruction does ---------------------
    def decode(self, b, address=None, guard=10):
        """returns instruction | None; exceptions propagate (the decoder state is
        left as the code under test left it). A wall-clock guard raises HarnessTimeout (a BaseException, so that it is
        never mistaken for an outcome of the code under test)."""
        try:
            with time_guard(guard):
                if self.is_wasm:
                    i = self.d(b, address=0, code=b)
                else:
                    i = self.d(b)
        except HarnessTimeout:
            # interrupted in the middle of a decode: the harness broke the state
            self.reset_decoder()
            raise
        if i is not None and address is not None and not self.is_wasm:
            from amoco.cas.expressions import cst

            i.address = cst(address, self.cpu.PC().size)
        return i

    def reset_decoder(self):
        try:
            self.d._disassembler__i = None
        except Exception:
            pass

    # ---- spec guided generation -------------------------------------------
    def word_bytes(self, spec, rnd, endian, match=True):
        size = spec.fix.size
        v = (rnd.getrandbits(size) & ~spec.mask.ival) | spec.fix.ival
        bs = v.to_bytes(size // 8, "little")
        if endian == -1:
            bs = bs[::-1]
        return bs

    # ---- dependency-biased generation (used by the semantic checks) --------------
    CORE = ("ADD", "SUB", "AND", "OR", "XOR", "EOR", "MOV", "LD", "ST", "LDR", "STR", "CMP", "LEA", "INC", "DEC", "NEG", "NOT",
            "ADC", "SBB", "SBC", "RSB", "MUL", "IMUL", "SHL", "SHR", "SAR", "SAL", "ROR", "ROL", "LSL", "LSR", "ASR", "SLL", "SRL", "SRA",
            "PUSH", "POP", "TEST", "TST", "LW", "SW", "LB", "SB", "LH", "LUI", "AUIPC", "SLT", "XCHG", "MVN", "BIC", "CP", "EX",
            "MOVZX", "MOVSX", "MOVSXD", "SETCC", "CMOVCC", "BSWAP", "XADD", "DIV", "IDIV", "NOP", "ADDI", "ANDI", "ORI", "XORI",
            "BLT", "BGE", "BLTU", "BGEU", "BEQ", "BNE", "SLTI", "SLTIU", "SLTU", "SRAI", "SRLI", "SLLI", "SUBS", "ADDS", "CMN", "JCC", "BCC",
            "SAR", "SMULL", "UMULL", "MULH", "BRA", "BF", "BT", "J", "JAL", "JALR")
    REGFIELD = re.compile(r"^(r[a-z]?[0-9]?|R[a-zA-Z]?[0-9]?|rs1|rs2|rd|rt|rs|ra|rb|rc|reg|REG|RM|rm|Rdn|Rdm|src|dst|s1|s2|d|a|b|c|n|m|t)$")

    def _spec_info(self, mode):
        from vlib import fmtlang

        if not hasattr(self, "_info"):
            self._info = {}
        if mode not in self._info:
            core = []
            fields = {}
            for k, sp in enumerate(self.specs[mode]):
                mn = str(sp.iattr.get("mnemonic", "")).upper()
                if any(mn == c or (mn.startswith(c) and len(mn) <= len(c) + 2) for c in self.CORE) and sp.pfx is not True:
                    core.append(k)
                try:
                    fl = fmtlang.interp(sp.format).fields
                except Exception:
                    fl = {}
                fields[k] = [(n, lo, hi) for n, (o, lo, hi) in fl.items() if hi is not None and 2 <= hi - lo <= 5 and self.REGFIELD.match(n)]
                if "Mod" in fl and fl["Mod"][2] is not None:
                    fields[k].append(("Mod", fl["Mod"][1], fl["Mod"][2]))
            self._info[mode] = (core, fields)
        return self._info[mode]

    def gen_instr_bytes(self, rnd, mode, endian):
        """one encoding biased towards common integer instructions on a small set of registers, so
        that generated sequences have data dependencies (no tail, no truncation, no bit flips)"""
        S = self.specs[mode]
        core, fields = self._spec_info(mode)
        if core and rnd.random() < 0.7:
            k = core[rnd.randrange(len(core))]
        else:
            k = rnd.randrange(len(S))
        sp = S[k]
        size = sp.fix.size
        v = (rnd.getrandbits(size) & ~sp.mask.ival) | sp.fix.ival
        for (n, lo, hi) in fields[k]:
            if rnd.random() < 0.75:
                w = hi - lo
                if n == "Mod":
                    val = 3 if rnd.random() < 0.6 else 0
                else:
                    val = [0, 1, 2, 3][rnd.randrange(4)] & ((1 << w) - 1)
                    if self.is_x86 and n == "RM" and val == 2:
                        val = 3
                keep = ((1 << size) - 1) ^ (((1 << w) - 1) << lo)
                v = (v & keep) | (val << lo)
        v = (v & ~sp.mask.ival) | sp.fix.ival
        b = v.to_bytes(size // 8, "little")
        if endian == -1:
            b = b[::-1]
        if sp.size == 0:  # variable length: immediates / displacements follow
            b += bytes(rnd.getrandbits(8) for _ in range(rnd.randrange(0, 9))) if rnd.random() < 0.8 else bytes(8)
        if self.is_x86 and rnd.random() < 0.2:
            pool = [0x66] + ([0x48, 0x41, 0x44] if self.is_x64 else [])
            b = bytes([pool[rnd.randrange(len(pool))]]) + b
        return b

    def gen_x86_modrm(self, rnd, mode=0):
        """x86/x64 only: an encoding of a spec with a ModRM byte where the addressing form is chosen
        systematically (every Mod, SIB present, SIB without base / without index, disp32-only, RIP-relative),
        followed by boundary/random displacement and immediate bytes, under 0..3 legacy prefixes and REX"""
        S = self.specs[mode]
        core, fields = self._spec_info(mode)
        if not hasattr(self, "_modrm"):
            self._modrm = {}
        if mode not in self._modrm:
            self._modrm[mode] = [k for k in range(len(S)) if any(n == "Mod" for n, lo, hi in fields[k]) and any(n == "RM" for n, lo, hi in fields[k])]
        ks = self._modrm[mode]
        k = ks[rnd.randrange(len(ks))]
        sp = S[k]
        size = sp.fix.size
        v = (rnd.getrandbits(size) & ~sp.mask.ival) | sp.fix.ival
        pos = dict((n, (lo, hi)) for n, lo, hi in fields[k])
        r = rnd.random()
        rm = 4 if r < 0.5 else (5 if r < 0.7 else rnd.randrange(8))
        for n, val in (("Mod", rnd.randrange(4)), ("RM", rm)):
            lo, hi = pos[n]
            keep = ((1 << size) - 1) ^ (((1 << (hi - lo)) - 1) << lo)
            v = (v & keep) | (val << lo)
        v = (v & ~sp.mask.ival) | sp.fix.ival
        b = v.to_bytes(size // 8, "little")
        r = rnd.random()
        base = 5 if r < 0.4 else (4 if r < 0.55 else rnd.randrange(8))
        index = 4 if rnd.random() < 0.3 else rnd.randrange(8)
        b += bytes([(rnd.randrange(4) << 6) | (index << 3) | base])
        kind = rnd.randrange(4)
        n = rnd.randrange(4, 12)
        b += [bytes(n), b"\xff" * n, b"\x80" * n, bytes(rnd.getrandbits(8) for _ in range(n))][kind]
        if rnd.random() < 0.5:
            # the prefix sets that change operand / address size and repetition, one each
            pfx = [b"", b"\x66", b"\x67", b"\x66\x67", b"\xf2", b"\xf3", b"\x66\xf3", b"\xf0", b"\x2e", b"\x66\x66"][rnd.randrange(10)]
        else:
            pfx = bytes(X86_WEIGHTED[rnd.randrange(len(X86_WEIGHTED))] if rnd.random() < 0.6 else X86_PREFIXES[rnd.randrange(len(X86_PREFIXES))] for _ in range(rnd.randrange(0, 4) if rnd.random() < 0.6 else 0))
        if self.is_x64 and rnd.random() < 0.6:
            pfx += bytes([REX[rnd.randrange(16)]])
        return pfx + b

    def gen_bytes(self, rnd, mode, endian, tail=True, index=None):
        """spec-guided byte string (mostly decodable), mixed with random
        strings, truncations and bit flips. All randomness comes from rnd.
        With `index` the spec is chosen systematically (index modulo the number of
        specs) so that a campaign of k*len(specs) cases reaches every spec k times."""
        S = self.specs[mode]
        k = rnd.random()
        if k < 0.08 and index is None:
            return bytes(rnd.getrandbits(8) for _ in range(rnd.randrange(0, self.d.maxlen + 9)))
        s = S[rnd.randrange(len(S))] if index is None else S[index % len(S)]
        b = self.word_bytes(s, rnd, endian)
        pfx = b""
        if s.pfx is True:
            # follow a prefix with another generated encoding
            s2 = S[rnd.randrange(len(S))]
            b = b + self.word_bytes(s2, rnd, endian)
        if self.is_wasm and s.pfx == "xdata":
            # vector length of select/br_table: keep it small (a huge LEB128 count is
            # a loop of astronomically many iterations: C17/C20 territory, not a case here)
            b = b + bytes([rnd.randrange(0, 12)])
        if tail:
            n = rnd.randrange(0, 17)
            kind = rnd.randrange(5)
            if kind == 0:
                t = bytes(n)
            elif kind == 1:
                t = b"\xff" * n
            elif kind == 2:
                t = b"\x90" * n
            elif kind == 3:
                # all bytes distinct: an operand recorded or read in the wrong byte order shows
                t = bytes((0x11 * (j + 1)) & 0xFF for j in range(n))
            else:
                t = bytes(rnd.getrandbits(8) for _ in range(n))
            b = b + t
        if self.is_x86 and rnd.random() < 0.45:
            n = rnd.randrange(1, 4)
            pool = X86_PREFIXES + (REX if self.is_x64 else [])
            # operand/address-size and rep prefixes change decoding and semantics most: favour them
            pfx = bytes(X86_WEIGHTED[rnd.randrange(len(X86_WEIGHTED))] if rnd.random() < 0.6 else pool[rnd.randrange(len(pool))] for _ in range(n))
            if self.is_x64 and rnd.random() < 0.5:
                # REX must be last to be effective
                pfx = bytes(p for p in pfx if p not in REX) + bytes([REX[rnd.randrange(16)]])
            b = pfx + b
        if k < 0.16 and len(b) > 0:
            b = b[: rnd.randrange(len(b) + 1)]
        elif k < 0.22 and len(b) > 0:
            p = rnd.randrange(len(b))
            b = b[:p] + bytes([b[p] ^ (1 << rnd.randrange(8))]) + b[p + 1:]
        return b


def load(name):
    return Isa(name)


def stable_str(v):
    """str() without object addresses"""
    if isinstance(v, (list, tuple)):
        return "[" + ",".join(stable_str(x) for x in v) + "]"
    if isinstance(v, dict):
        return "{" + ",".join("%s:%s" % (stable_str(k), stable_str(x)) for k, x in sorted(v.items(), key=lambda kv: str(kv[0]))) + "}"
    if callable(v) and hasattr(v, "__name__"):
        return "<fn %s>" % v.__name__
    s = str(v)
    if " at 0x" in s:
        s = re.sub(r" at 0x[0-9a-f]+", "", s)
    return s


def fingerprint(i, with_attrs=True):
    """full observable identity of a decoded instruction"""
    if i is None:
        return None
    ops = []
    for o in i.operands:
        ops.append((type(o).__name__, stable_str(o), getattr(o, "size", None)))
    misc = tuple(sorted((str(k), stable_str(v)) for k, v in i.misc.items() if v is not None))
    at = ()
    if with_attrs:
        at = tuple(
            sorted(
                (k, stable_str(v))
                for k, v in i.__dict__.items()
                if k not in ("bytes", "spec", "operands", "misc", "address", "mnemonic", "type", "xdata")
            )
        )
    return (i.bytes.hex(), str(i.mnemonic), tuple(ops), i.type, misc, at)


def all_names():
    return list(CPUS)


def with_semantics():
    return [n for n in CPUS if n not in NO_SEMANTICS]
