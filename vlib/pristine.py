"""fork-based isolation: run a function in a forked copy of the current process
(the 'zygote' is simply a process that has imported the target modules and done
nothing else with them)."""
import os
import pickle
import signal
import sys
import traceback


_frozen = False


class ChildFailure(Exception):
    pass


def in_child(fn, *args, timeout=60):
    """run fn(*args) in a forked child and return its (picklable) result.
    raises ChildFailure if the child died, timed out or raised."""
    global _frozen
    if not _frozen:
        import gc

        gc.collect()
        gc.freeze()  # fewer copy-on-write faults in the children
        _frozen = True
    r, w = os.pipe()
    sys.stdout.flush()
    sys.stderr.flush()
    pid = os.fork()
    if pid == 0:
        rc = 0
        try:
            os.close(r)
            signal.signal(signal.SIGALRM, signal.SIG_DFL)
            signal.alarm(int(timeout))
            try:
                res = ("ok", fn(*args))
            except BaseException as x:
                res = ("exc", "%s: %s\n%s" % (type(x).__name__, x, traceback.format_exc()[-1500:]))
            data = pickle.dumps(res)
            with os.fdopen(w, "wb") as f:
                f.write(data)
        except BaseException:
            rc = 1
        finally:
            os._exit(rc)
    os.close(w)
    chunks = []
    with os.fdopen(r, "rb") as f:
        while True:
            c = f.read(1 << 16)
            if not c:
                break
            chunks.append(c)
    _, status = os.waitpid(pid, 0)
    data = b"".join(chunks)
    if not data:
        if os.WIFSIGNALED(status) and os.WTERMSIG(status) == signal.SIGALRM:
            raise ChildFailure("timeout")
        raise ChildFailure("child died status=%r" % status)
    kind, val = pickle.loads(data)
    if kind == "exc":
        raise ChildFailure(val)
    return val
