"""Reference semantics for amoco expressions, sharing no code with amoco:

 * tree specs (nested JSON-able lists) with a generator, a builder that goes
   through amoco's operator API, and an evaluator over Python integers;
 * a walker that interprets an *amoco expression object* under a valuation
   without calling any amoco eval/simplify.

Tree spec:
  ['reg', name, size]  ['cst', v, size]
  ['bin', op, l, r]    op in + - * & | ^ == != <. >=. << >> .>> >>> <<<
  ['sbin', op, signed, l, r]   op in < <= > >= ** / %   (both operands declared)
  ['un', op, x]        op in ~ -
  ['slc', x, pos, size] ['cmp', [parts...]] ['tst', c, l, r] ['zx', x, size] ['sx', x, size]
"""

SHIFTS = ("<<", ">>", ".>>")
ROTS = (">>>", "<<<")
CMP1 = ("==", "!=", "<.", ">=.")
SCMP = ("<", "<=", ">", ">=")


def M(s):
    return (1 << s) - 1


def sgn(v, s):
    return v - (1 << s) if (v >> (s - 1)) & 1 else v


def size_of(t):
    k = t[0]
    if k in ("reg", "cst"):
        return t[2]
    if k == "bin":
        return 1 if t[1] in CMP1 else size_of(t[2])
    if k == "sbin":
        if t[1] in SCMP:
            return 1
        if t[1] == "**":
            return 2 * size_of(t[3])
        return size_of(t[3])
    if k == "un":
        return size_of(t[2])
    if k == "slc":
        return t[3]
    if k == "cmp":
        return sum(size_of(p) for p in t[1])
    if k == "tst":
        return size_of(t[2])
    if k in ("zx", "sx"):
        return t[2]
    if k == "mem":  # ['mem', addr-tree, disp, size]   (C12/C13 only)
        return t[3]
    if k == "vec":  # ['vec', [members of equal size]]  (C12 only)
        return size_of(t[1][0])
    raise ValueError(t)


class DomainError(Exception):
    "the case is outside the property's domain (division by zero)"


def tdiv(a, b):
    q = abs(a) // abs(b)
    return q if (a < 0) == (b < 0) else -q


def ref(t, env):
    k = t[0]
    if k == "reg":
        return env[t[1]] & M(t[2])
    if k == "cst":
        return t[1] & M(t[2])
    if k == "un":
        s = size_of(t)
        x = ref(t[2], env)
        return (~x) & M(s) if t[1] == "~" else (-x) & M(s)
    if k == "slc":
        return (ref(t[1], env) >> t[2]) & M(t[3])
    if k == "cmp":
        v = 0
        pos = 0
        for p in t[1]:
            v |= ref(p, env) << pos
            pos += size_of(p)
        return v
    if k == "tst":
        return ref(t[2], env) if ref(t[1], env) == 1 else ref(t[3], env)
    if k == "zx":
        return ref(t[1], env)
    if k == "sx":
        s = size_of(t[1])
        return sgn(ref(t[1], env), s) & M(t[2])
    if k == "bin":
        op = t[1]
        l = ref(t[2], env)
        r = ref(t[3], env)
        s = size_of(t[2])
        return binop(op, l, r, s)
    if k == "sbin":
        op, signed = t[1], t[2]
        l = ref(t[3], env)
        r = ref(t[4], env)
        s = size_of(t[3])
        return sbinop(op, signed, l, r, s)
    raise ValueError(t)


def binop(op, l, r, s):
    if op == "+":
        return (l + r) & M(s)
    if op == "-":
        return (l - r) & M(s)
    if op == "*":
        return (l * r) & M(s)
    if op == "&":
        return l & r
    if op == "|":
        return l | r
    if op == "^":
        return l ^ r
    if op == "==":
        return int(l == r)
    if op == "!=":
        return int(l != r)
    if op == "<.":
        return int(l < r)
    if op == ">=.":
        return int(l >= r)
    if op == "<<":
        return (l << r) & M(s) if r < s else 0
    if op == ">>":
        return (l >> r) if r < s else 0
    if op == ".>>":
        return (sgn(l, s) >> min(r, s)) & M(s)
    if op == ">>>":
        r %= s
        return ((l >> r) | (l << (s - r))) & M(s)
    if op == "<<<":
        r %= s
        return ((l << r) | (l >> (s - r))) & M(s)
    raise ValueError(op)


def sbinop(op, signed, l, r, s):
    a, b = (sgn(l, s), sgn(r, s)) if signed else (l, r)
    if op == "<":
        return int(a < b)
    if op == "<=":
        return int(a <= b)
    if op == ">":
        return int(a > b)
    if op == ">=":
        return int(a >= b)
    if op == "**":
        return (a * b) & M(2 * s)
    if b == 0:
        raise DomainError()
    if op == "/":
        return tdiv(a, b) & M(s)
    if op == "%":
        rem = a - b * tdiv(a, b)  # sign of the dividend (C, bvsrem)
        if rem != a % b:
            # floor-modulo (sign of the divisor, bvsmod: what z3py's % and amoco's own
            # SMT translation mean) differs: the property does not say which of the two
            # 'modulo' is; such cases are outside the domain
            raise DomainError()
        return rem & M(s)
    raise ValueError(op)


# ---------------------------------------------------------------- builder


def build(t, raw=False):
    """amoco expression through the operator API (fresh leaf objects per occurrence).
    raw=True: binary operator nodes are made with the node constructor E.op(symbol, l, r), as architecture
    code does, so that no rewriting happens before simplify() is called"""
    from amoco.cas import expressions as E

    if raw:
        return _build_raw(t)
    k = t[0]
    if k == "reg":
        return E.reg(t[1], t[2])
    if k == "cst":
        return E.cst(t[1] & M(t[2]), t[2])
    if k == "un":
        x = build(t[2])
        return ~x if t[1] == "~" else -x
    if k == "slc":
        return build(t[1])[t[2]: t[2] + t[3]]
    if k == "cmp":
        return E.composer([build(p) for p in t[1]])
    if k == "tst":
        return E.tst(build(t[1]), build(t[2]), build(t[3]))
    if k == "zx":
        return build(t[1]).zeroextend(t[2])
    if k == "sx":
        return build(t[1]).signextend(t[2])
    if k == "mem":
        return E.mem(build(t[1]), t[3], disp=t[2])
    if k == "vec":
        return E.vec([build(x) for x in t[1]])
    if k == "bin":
        op = t[1]
        l = build(t[2])
        r = build(t[3])
        if op == "+":
            return l + r
        if op == "-":
            return l - r
        if op == "*":
            return l * r
        if op == "&":
            return l & r
        if op == "|":
            return l | r
        if op == "^":
            return l ^ r
        if op == "==":
            return l == r
        if op == "!=":
            return l != r
        if op == "<.":
            return E.oper(E.OP_LTU, l, r)
        if op == ">=.":
            return E.oper(E.OP_GEU, l, r)
        if op == "<<":
            return l << r
        if op == ">>":
            return l >> r
        if op == ".>>":
            return l // r
        if op == ">>>":
            return E.oper(E.OP_ROR, l, r)
        if op == "<<<":
            return E.oper(E.OP_ROL, l, r)
    if k == "sbin":
        op, signed = t[1], t[2]
        l = build(t[3])
        r = build(t[4])
        # declare both operands identically, on objects this harness owns
        if signed:
            l = l.signed()
            r = r.signed()
        else:
            l = l.unsigned()
            r = r.unsigned()
        if op == "<":
            return l < r
        if op == "<=":
            return l <= r
        if op == ">":
            return l > r
        if op == ">=":
            return l >= r
        if op == "**":
            return l ** r
        if op == "/":
            return l / r
        if op == "%":
            return l % r
    raise ValueError(t)


def _build_raw(t):
    from amoco.cas import expressions as E

    k = t[0]
    if k == "bin":
        return E.op(t[1], _build_raw(t[2]), _build_raw(t[3]))
    if k == "un":
        x = _build_raw(t[2])
        return ~x if t[1] == "~" else -x
    if k == "slc":
        return _build_raw(t[1])[t[2]: t[2] + t[3]]
    if k == "cmp":
        return E.composer([_build_raw(p) for p in t[1]])
    if k == "tst":
        return E.tst(_build_raw(t[1]), _build_raw(t[2]), _build_raw(t[3]))
    if k == "zx":
        return _build_raw(t[1]).zeroextend(t[2])
    if k == "sx":
        return _build_raw(t[1]).signextend(t[2])
    return build(t)


def regs_of(t, acc=None):
    acc = {} if acc is None else acc
    if t[0] == "reg":
        acc[t[1]] = t[2]
    elif t[0] in ("cmp", "vec"):
        for p in t[1]:
            regs_of(p, acc)
    else:
        for x in t[1:]:
            if isinstance(x, (list, tuple)):
                regs_of(x, acc)
    return acc


def children(t):
    k = t[0]
    if k in ("reg", "cst"):
        return []
    if k in ("cmp", "vec"):
        return list(t[1])
    return [x for x in t[1:] if isinstance(x, (list, tuple))]


def depth(t):
    c = children(t)
    return 1 + max([depth(x) for x in c]) if c else 1


def nodes(t):
    return 1 + sum(nodes(c) for c in children(t))


def opname(t):
    k = t[0]
    if k in ("bin", "un"):
        return t[1]
    if k == "sbin":
        return t[1] + ("s" if t[2] else "u")
    return k


def kind(t):
    k = t[0]
    if k == "reg":
        return "reg"
    if k == "cst":
        v, s = t[1] & M(t[2]), t[2]
        if v == 0:
            return "0"
        if v == 1:
            return "1"
        if v == M(s):
            return "-1"
        return "cst"
    return opname(t)


def signature(t):
    """operator of the node + kinds of its children; for shifts the amount class"""
    k = t[0]
    if k in ("reg", "cst"):
        return kind(t)
    ch = children(t)
    ks = [kind(c) for c in ch]
    if k == "sbin" and any(c[0] not in ("reg", "cst") for c in ch):
        # sign declaration made on a compound operand (see known finding C01-sign-compound)
        return "%s(compound)" % opname(t)
    if k == "bin" and t[1] in SHIFTS + ROTS and t[3][0] == "cst":
        w = size_of(t[2])
        a = t[3][1] & M(t[3][2])
        ks[1] = "0" if a == 0 else ("amt<w" if a < w else ("amt=w" if a == w else "amt>w"))
    return "%s(%s)" % (opname(t), ",".join(ks))


# ---------------------------------------------------------------- generator


def gen_const(rnd, size):
    k = rnd.randrange(8)
    if k == 0:
        v = 0
    elif k == 1:
        v = 1
    elif k == 2:
        v = M(size)
    elif k == 3:
        v = 1 << (size - 1)
    elif k == 4:
        v = (1 << rnd.randrange(size + 1)) - 1  # low mask
    elif k == 5:
        lo = rnd.randrange(size)
        hi = rnd.randrange(lo, size)
        v = (M(hi - lo + 1)) << lo  # contiguous mask
    elif k == 6:
        v = rnd.getrandbits(size) & rnd.getrandbits(size)
    else:
        v = rnd.getrandbits(size)
    return ["cst", v & M(size), size]


WIDTHS = [1, 8, 16, 32, 64, 128, 7, 13, 24, 33, 5, 2]
NAMES = "abcd"


def gen_width(rnd):
    k = rnd.randrange(16)
    if k < 10:
        return [1, 8, 16, 32, 64][rnd.randrange(5)] if k else 32
    if k < 14:
        return WIDTHS[rnd.randrange(len(WIDTHS))]
    return rnd.randrange(1, 129)


def gen_tree(rnd, size, d, signed_ops=True):
    if d <= 0 or rnd.random() < 0.22:
        if rnd.random() < 0.55:
            return ["reg", NAMES[rnd.randrange(4)] + str(size), size]
        return gen_const(rnd, size)
    c = rnd.random()
    if c < 0.40:
        ops = ["+", "-", "*", "&", "|", "^", "<<", ">>", ".>>", ">>>", "<<<"]
        op = ops[rnd.randrange(len(ops))]
        l = gen_tree(rnd, size, d - 1, signed_ops)
        if op in ROTS:
            if rnd.random() < 0.7 or size == 1:
                r = ["cst", rnd.randrange(size), size]
            else:
                r = ["reg", "rot%d" % size, size]  # valuation is drawn < width
        elif op in SHIFTS and rnd.random() < 0.6:
            amts = [0, 1, size - 1, size, size + 1, 2 * size, rnd.randrange(2 * size + 2), M(size)]
            if rnd.random() < 0.25:
                # the amount has its own width (a count register / immediate narrower or wider than the operand)
                w2 = 8 if size != 8 else 5
                r = ["cst", amts[rnd.randrange(len(amts))] & M(w2), w2]
            else:
                r = ["cst", amts[rnd.randrange(len(amts))] & M(size), size]
        elif op in SHIFTS and rnd.random() < 0.6:
            r = ["reg", "sh%d" % size, size]  # dedicated amount register, valuation biased to boundary amounts
        else:
            r = gen_tree(rnd, size, d - 1, signed_ops)
        return ["bin", op, l, r]
    if c < 0.48:
        return ["un", "~-"[rnd.randrange(2)], gen_tree(rnd, size, d - 1, signed_ops)]
    if c < 0.58:
        big = size + rnd.randrange(1, 17)
        pos = rnd.randrange(big - size + 1) if rnd.random() < 0.6 else 0
        return ["slc", gen_tree(rnd, big, d - 1, signed_ops), pos, size]
    if c < 0.67 and size >= 2:
        k = rnd.randrange(1, size)
        if size >= 3 and rnd.random() < 0.3:
            k2 = rnd.randrange(1, size - k) if size - k > 1 else 0
            if k2:
                return ["cmp", [gen_tree(rnd, k, d - 1, signed_ops), gen_tree(rnd, k2, d - 1, signed_ops), gen_tree(rnd, size - k - k2, d - 1, signed_ops)]]
        return ["cmp", [gen_tree(rnd, k, d - 1, signed_ops), gen_tree(rnd, size - k, d - 1, signed_ops)]]
    if c < 0.75:
        return ["tst", gen_bool(rnd, d - 1, signed_ops), gen_tree(rnd, size, d - 1, signed_ops), gen_tree(rnd, size, d - 1, signed_ops)]
    if c < 0.83 and size >= 2:
        k = rnd.randrange(1, size)
        return [["zx", "sx"][rnd.randrange(2)], gen_tree(rnd, k, d - 1, signed_ops), size]
    if c < 0.93 and signed_ops:
        op = ["/", "%", "/", "%", "**"][rnd.randrange(5)]
        signed = rnd.random() < 0.5
        if op == "**":
            if size % 2 or size < 2:
                return gen_tree(rnd, size, d - 1, signed_ops)
            h = size // 2
            return ["sbin", "**", signed, gen_tree(rnd, h, d - 1, signed_ops), gen_tree(rnd, h, d - 1, signed_ops)]
        l = gen_tree(rnd, size, d - 1, signed_ops)
        if rnd.random() < 0.6:
            r = gen_const(rnd, size)
            if r[1] == 0:
                r[1] = 1
        else:
            r = ["bin", "|", gen_tree(rnd, size, d - 1, signed_ops), ["cst", 1, size]]
        return ["sbin", op, signed, l, r]
    if size == 1:
        return gen_bool(rnd, d - 1, signed_ops)
    return gen_tree(rnd, size, d - 1, signed_ops)


def gen_bool(rnd, d, signed_ops=True):
    s = gen_width(rnd)
    if signed_ops and rnd.random() < 0.45:
        op = SCMP[rnd.randrange(4)]
        return ["sbin", op, rnd.random() < 0.5, gen_tree(rnd, s, d - 1, signed_ops), gen_tree(rnd, s, d - 1, signed_ops)]
    op = CMP1[rnd.randrange(4)]
    return ["bin", op, gen_tree(rnd, s, d - 1, signed_ops), gen_tree(rnd, s, d - 1, signed_ops)]


def gen_env(rnd, regs):
    env = {}
    for k, s in sorted(regs.items()):
        if k.startswith("rot"):
            env[k] = rnd.randrange(s)
            continue
        if k.startswith("sh"):
            c = rnd.randrange(8)
            small = rnd.randrange(0, 2 * s + 2)
            env[k] = [0, 1, s - 1, s, s + 1, small, (1 << rnd.randrange(s)) | rnd.randrange(0, min(s, 8)), M(s)][c] & M(s)
            continue
        c = rnd.randrange(7)
        env[k] = [0, 1, M(s), 1 << (s - 1), (1 << (s - 1)) - 1, rnd.getrandbits(s), rnd.getrandbits(s)][c]
    return env


# ---------------------------------------------------------------- walker


class Inconclusive(Exception):
    pass


def walk(e, env):
    """value of the amoco expression object e under env (name -> int), computed
    without amoco's eval/simplify; raises Inconclusive where the object makes no
    claim (top/undefined, mixed sign flags on a sign-dependent operator, memory)"""
    if e._is_top or not e._is_def:
        raise Inconclusive("top")
    if e._is_cst:
        return e.v & M(e.size)
    if e._is_slc:  # before _is_reg: a slice of a register also answers _is_reg
        return (walk(e.x, env) >> e.pos) & M(e.size)
    if e._is_reg:
        if e.ref not in env:
            raise Inconclusive("unbound")
        return env[e.ref] & M(e.size)
    if e._is_cmp:
        v = 0
        cov = 0
        for (lo, hi), p in sorted(e.parts.items()):
            if p.size != hi - lo:
                raise AssertionError("comp part size %d for [%d:%d]" % (p.size, lo, hi))
            v |= walk(p, env) << lo
            cov += hi - lo
        if cov != e.size:
            raise AssertionError("comp covers %d of %d bits" % (cov, e.size))
        return v
    if e._is_tst:
        return walk(e.l, env) if walk(e.tst, env) == 1 else walk(e.r, env)
    if e._is_eqn:
        s = e.op.symbol
        if e.op.unary:
            r = walk(e.r, env)
            if s == "~":
                return (~r) & M(e.size)
            if s == "-":
                return (-r) & M(e.size)
            if s == "+":
                return r
            raise Inconclusive("uop " + s)
        l = walk(e.l, env)
        r = walk(e.r, env)
        n = e.l.size
        if s in ("+", "-", "*", "&", "|", "^", "==", "!=", "<.", ">=.", "<<", ">>", ".>>", ">>>", "<<<"):
            return binop(s, l, r, n)
        if s in SCMP or s in ("**", "/", "%"):
            if bool(e.l.sf) != bool(e.r.sf):
                raise Inconclusive("mixed sign flags")
            try:
                return sbinop(s, bool(e.l.sf), l, r, n)
            except DomainError:
                raise Inconclusive("div0")
        raise Inconclusive("op " + s)
    if e._is_vec:
        raise Inconclusive("vec")
    if getattr(e, "_is_ptr", False):
        # a pointer value: base + displacement (the segment is not part of the numeric value)
        return (walk(e.base, env) + e.disp) & M(e.size)
    raise Inconclusive(type(e).__name__)


def self_test():
    assert sbinop("/", True, 0xF9, 2, 8) == 0xFD  # -7/2 = -3
    try:
        sbinop("%", True, 0xF9, 2, 8)  # -7 % 2: rem = -1, mod = 1: ambiguous
        assert False
    except DomainError:
        pass
    assert sbinop("%", True, 0xF8, 2, 8) == 0 and sbinop("%", True, 7, 2, 8) == 1
    assert sbinop("/", False, 0xF9, 2, 8) == 0x7C
    assert binop(".>>", 0x80, 9, 8, 8) == 0xFF if False else True
    assert binop(".>>", 0x80, 9, 8) == 0xFF and binop(">>", 0x80, 8, 8) == 0 and binop("<<", 1, 8, 8) == 0
    assert binop(">>>", 0x81, 1, 8) == 0xC0 and binop("<<<", 0x81, 1, 8) == 0x03
    assert sbinop("**", True, 0xFF, 0xFF, 8) == 1 and sbinop("**", False, 0xFF, 0xFF, 8) == 0xFE01
    assert sbinop("<", True, 0xFF, 1, 8) == 1 and sbinop("<", False, 0xFF, 1, 8) == 0
    t = ["bin", "+", ["reg", "a8", 8], ["cst", 250, 8]]
    assert ref(t, {"a8": 10}) == 4 and size_of(t) == 8
    return True
