"""Common runner for the property checks (see DESIGN.md section 1).

A property module (props/Cnn.py) provides:

    ID, RULE, LEVEL_ASSUMPTIONS (list of str)
    shards(tier, seed)            -> list of JSON-able shard descriptors
    run_shard(shard, tier, seed)  -> Partial        (runs in a worker process)
    replay(case)                  -> None | (bucket, detail)   (one case, fresh process)
    optional shrink(case, bucket) -> smaller case that still fails in `bucket`

The runner shards over up to 16 worker processes, merges the partial
records, confirms every failure bucket that is not a known finding in a
pristine process, writes evidence/<ID>.json and applies the exit protocol:
0 held / 1 VIOLATION / 2 harness error.
"""
import collections
import fnmatch
import hashlib
import json
import multiprocessing
import os
import subprocess
import sys
import time
import traceback

VERIF = os.path.dirname(os.path.dirname(os.path.abspath(__file__)))
PY = sys.executable
MAX_SAMPLES = 8
MAX_HASHES = 400000


def h64(obj):
    if not isinstance(obj, (bytes, bytearray)):
        obj = json.dumps(obj, sort_keys=True, default=str).encode()
    return int.from_bytes(hashlib.blake2b(obj, digest_size=8).digest(), "little")


def jsonable(x):
    if isinstance(x, (bytes, bytearray)):
        return {"hex": bytes(x).hex()}
    if isinstance(x, dict):
        return {str(k): jsonable(v) for k, v in x.items()}
    if isinstance(x, (list, tuple, set, frozenset)):
        return [jsonable(v) for v in x]
    if isinstance(x, (int, str, float, bool)) or x is None:
        return x
    return str(x)


class Partial(object):
    """what one shard saw"""

    def __init__(self):
        self.evaluations = 0
        self.nontrivial = set()
        self.samples = []
        self.other_samples = []  # a few cases that are not non-trivial (used only when there is no other sample)
        self.counters = collections.Counter()
        self.failures = {}  # bucket -> dict(case=, detail=, count=)
        self.harness_errors = []
        self.exhaustive = {}

    def case(self, case_hashable, nontrivial, sample=None):
        self.evaluations += 1
        if nontrivial:
            if len(self.nontrivial) < MAX_HASHES:
                self.nontrivial.add(h64(case_hashable))
            if sample is not None and len(self.samples) < MAX_SAMPLES:
                self.samples.append(jsonable(sample))
        elif sample is not None and len(self.other_samples) < 3:
            self.other_samples.append(jsonable(sample))

    def count(self, key, n=1):
        self.counters[key] += n

    def fail(self, bucket, case, detail=""):
        case = jsonable(case)
        sz = len(json.dumps(case))
        f = self.failures.get(bucket)
        if f is None:
            self.failures[bucket] = dict(case=case, detail=str(detail)[:2000], count=1, size=sz)
        else:
            f["count"] += 1
            if sz < f["size"]:
                f.update(case=case, detail=str(detail)[:2000], size=sz)

    def merge(self, o):
        self.evaluations += o.evaluations
        if len(self.nontrivial) < MAX_HASHES:
            self.nontrivial |= o.nontrivial
        for s in o.samples:
            if len(self.samples) < MAX_SAMPLES:
                self.samples.append(s)
        for s in getattr(o, "other_samples", []):
            if len(self.other_samples) < 3:
                self.other_samples.append(s)
        self.counters.update(o.counters)
        for b, f in o.failures.items():
            g = self.failures.get(b)
            if g is None:
                self.failures[b] = dict(f)
            else:
                g["count"] += f["count"]
                if f["size"] < g["size"]:
                    g.update(case=f["case"], detail=f["detail"], size=f["size"])
        self.harness_errors += o.harness_errors
        for k, v in o.exhaustive.items():
            self.exhaustive[k] = self.exhaustive.get(k, True) and v


def shard_seed(seed, *parts):
    return h64([seed] + list(parts)) & 0x7FFFFFFF


# --------------------------------------------------------------------------
# hypothesis helper: collect-mode campaign


def campaign(strategy, body, n, seed):
    """run `body(x)` on n generated values; body never raises for property
    failures (it records them); an exception escaping body is a harness error."""
    import hypothesis
    from hypothesis import given, settings, HealthCheck, Phase

    @hypothesis.seed(seed)
    @settings(
        max_examples=n,
        database=None,
        deadline=None,
        derandomize=False,
        report_multiple_bugs=False,
        suppress_health_check=list(HealthCheck),
        phases=[Phase.generate],
    )
    @given(strategy)
    def t(x):
        body(x)

    t()


def bucket_of_exception(stage, x, tb=None, pkg="/amoco/"):
    """root-cause shaped key: stage, exception type, innermost amoco function"""
    tb = traceback.extract_tb(tb if tb is not None else sys.exc_info()[2])
    fr = [t for t in tb if pkg in t.filename]
    t = fr[-1] if fr else (tb[-1] if tb else None)
    if t is None:
        return "%s:%s:?" % (stage, type(x).__name__)
    fn = t.filename.split("amoco/")[-1] if "amoco/" in t.filename else os.path.basename(t.filename)
    return "%s:%s:%s:%s" % (stage, type(x).__name__, fn, t.name)


# --------------------------------------------------------------------------
# known findings


def load_known(pid):
    p = os.path.join(VERIF, "known_findings.json")
    if not os.path.exists(p):
        return []
    with open(p) as f:
        data = json.load(f)
    return [e for e in data.get("findings", []) if e.get("property") == pid]


def match_known(bucket, known):
    for e in known:
        if e.get("status") != "open":
            continue
        for pat in e.get("buckets", []):
            if fnmatch.fnmatchcase(bucket, pat):
                return e
    return None


# --------------------------------------------------------------------------
# pristine replay in a fresh interpreter


def child_env():
    env = dict(os.environ)
    env["PYTHONHASHSEED"] = "0"
    env["AMOCO_LOG_LEVEL"] = "CRITICAL"
    env["HOME"] = os.path.join(VERIF, ".home")
    env["VERIF_CHILD"] = "1"
    return env


def pristine_replay(pid, case, timeout=900, shrink_bucket=None, want_case=False):
    """returns (bucket, detail) if the case fails in a fresh process, None if it
    passes, ('HARNESS', msg) on a harness problem. With shrink_bucket the child
    first shrinks the case (staying in that bucket) and replays the result."""
    import tempfile

    fd, path = tempfile.mkstemp(suffix=".json", dir=os.path.join(VERIF, "build"))
    with os.fdopen(fd, "w") as f:
        json.dump({"property": pid, "case": case, "shrink_bucket": shrink_bucket}, f)
    out = None
    try:
        r = subprocess.run(
            [PY, os.path.join(VERIF, "check"), pid, "--replay", path, "--machine"],
            capture_output=True, text=True, timeout=timeout, env=child_env(), cwd=VERIF,
        )
        for line in r.stdout.splitlines():
            if line.startswith("REPLAY-RESULT "):
                res = json.loads(line[len("REPLAY-RESULT "):])
                out = (tuple(res["result"]) if res["result"] else None, res.get("case", case))
        if out is None:
            out = (("HARNESS", "replay produced no result: rc=%s %s" % (r.returncode, (r.stderr or "")[-500:])), case)
    except subprocess.TimeoutExpired:
        out = (("HARNESS", "replay timeout"), case)
    finally:
        os.unlink(path)
    return out if want_case else out[0]


# --------------------------------------------------------------------------


def limit_memory(gib=4):
    """address-space limit for worker and replay processes: a runaway allocation in
    the code under test becomes a MemoryError instead of exhausting the sandbox"""
    try:
        import resource

        lim = int(float(os.environ.get("VERIF_MEM_GIB", gib)) * (1 << 30))
        # the hard limit leaves 2 GiB of slack that only the time guard's signal handler uses: when the code under test
        # has exhausted the soft limit, raising the timeout exception itself needs memory
        resource.setrlimit(resource.RLIMIT_AS, (lim, lim + (2 << 30)))
    except Exception:
        pass


def _worker(args):
    modname, shard, tier, seed = args
    import importlib

    os.environ["VERIF_CHILD"] = "1"
    t0 = time.time()
    limit_memory()
    try:
        mod = importlib.import_module(modname)
        part = mod.run_shard(shard, tier, seed)
    except BaseException as x:  # harness error, never a violation
        part = Partial()
        part.harness_errors.append("shard %r: %s" % (shard, "".join(traceback.format_exception(type(x), x, x.__traceback__))[-3000:]))
    part.counters["shard_wall_s_x100"] += int(100 * (time.time() - t0))
    return part


def run_property(mod, tier, seed, jobs=None):
    t0 = time.time()
    pid = mod.ID
    jobs = jobs or int(os.environ.get("VERIF_JOBS", "16"))
    shards = mod.shards(tier, seed)
    total = Partial()
    ctx = multiprocessing.get_context("fork")
    work = [(mod.__name__, s, tier, seed) for s in shards]
    if jobs <= 1 or len(work) <= 1:
        for w in work:
            total.merge(_worker(w))
    else:
        # one process per shard, at most `jobs` at a time. (multiprocessing.Pool waits forever for the result of a task
        # whose worker was killed - out of memory, a crash of the interpreter -: here a worker that dies without a
        # result is a harness error naming the shard and the exit code.)
        pending = list(work)
        running = []  # (process, parent_conn, work item)
        while pending or running:
            while pending and len(running) < min(jobs, len(work)):
                w = pending.pop(0)
                pc, cc = ctx.Pipe(duplex=False)
                pr = ctx.Process(target=_worker_proc, args=(cc, w))
                pr.start()
                cc.close()
                running.append((pr, pc, w))
            progressed = False
            for item in list(running):
                pr, pc, w = item
                try:
                    ready = pc.poll(0)
                except (OSError, EOFError):
                    ready = True
                if ready:
                    try:
                        part = pc.recv()
                        total.merge(part)
                    except (EOFError, OSError):
                        pr.join(5)
                        total.harness_errors.append("shard %r: worker died without a result (exit code %r)" % (w[1], pr.exitcode))
                    pr.join(30)
                    pc.close()
                    running.remove(item)
                    progressed = True
                elif not pr.is_alive():
                    # died: drain a result that may still be in the pipe
                    try:
                        if pc.poll(0.2):
                            total.merge(pc.recv())
                        else:
                            total.harness_errors.append("shard %r: worker died without a result (exit code %r)" % (w[1], pr.exitcode))
                    except (EOFError, OSError):
                        total.harness_errors.append("shard %r: worker died without a result (exit code %r)" % (w[1], pr.exitcode))
                    pc.close()
                    running.remove(item)
                    progressed = True
            if not progressed:
                time.sleep(0.05)
    return finish(mod, total, tier, seed, t0)


def _worker_proc(conn, w):
    try:
        part = _worker(w)
        conn.send(part)
    finally:
        conn.close()


def finish(mod, total, tier, seed, t0):
    pid = mod.ID
    known = load_known(pid)
    lines = []
    violations = []
    known_hit = collections.Counter()
    history_dependent = 0
    rc = 0
    if total.harness_errors:
        for e in total.harness_errors[:5]:
            sys.stderr.write("HARNESS-ERROR %s\n" % e)
        rc = 2
    # 1. campaign failures: every bucket that is not a listed finding is shrunk and
    #    confirmed in a pristine interpreter (in parallel)
    todo = []
    for bucket, f in sorted(total.failures.items()):
        e = match_known(bucket, known)
        if e is not None:
            known_hit[e["id"]] += f["count"]
        else:
            todo.append((bucket, f))

    def confirm(bf):
        bucket, f = bf
        do_shrink = hasattr(mod, "shrink") and os.environ.get("VERIF_NOSHRINK") != "1"
        res, case = pristine_replay(pid, f["case"], shrink_bucket=bucket if do_shrink else None, want_case=True)
        return bucket, f, res, case

    if os.environ.get("VERIF_NOCONFIRM") == "1":  # development aid: collect buckets only
        sys.stderr.write("note: VERIF_NOCONFIRM=1, %d unknown buckets left unconfirmed\n" % len(todo))
        for bucket, f in todo:
            sys.stderr.write("unconfirmed bucket=%s count=%d detail=%s\n" % (bucket, f["count"], f["detail"][:300]))
        if os.environ.get("VERIF_DUMP_UNCONFIRMED"):
            with open(os.environ["VERIF_DUMP_UNCONFIRMED"], "w") as fh:
                json.dump([dict(bucket=b_, case=f_["case"]) for b_, f_ in todo], fh)
        todo = []
    if todo:
        from concurrent.futures import ThreadPoolExecutor

        with ThreadPoolExecutor(max_workers=min(12, len(todo))) as ex:
            results = list(ex.map(confirm, todo[:200]))
        if len(todo) > 200:
            sys.stderr.write("note: %d further unknown buckets not confirmed individually\n" % (len(todo) - 200))
    else:
        results = []
    for bucket, f, res, case in results:
        if res is None:
            if getattr(mod, "HISTORY_IS_VIOLATION", False):
                res = (bucket, f["detail"])
            else:
                history_dependent += 1
                sys.stderr.write("note: bucket %s did not reproduce in a pristine process (history dependent)\n" % bucket)
                continue
        if res[0] == "HARNESS":
            sys.stderr.write("HARNESS-ERROR replay of %s: %s\n" % (bucket, res[1]))
            rc = max(rc, 2)
            continue
        b2 = res[0]
        e = match_known(b2, known)
        if e is not None:
            known_hit[e["id"]] += f["count"]
            continue
        violations.append(dict(bucket=b2, campaign_bucket=bucket, case=case, detail=res[1], count=f["count"]))
    # 2. listed findings: open ones are announced while they reproduce, fixed
    #    ones are regression cases that must pass
    for e in known:
        if "case" not in e:
            # no minimal case recorded: announced while the campaign still hits it
            if e.get("status") == "open" and known_hit.get(e["id"]):
                lines.append("KNOWN-FINDING: property=%s %s [%s]" % (pid, e["what"], e["id"]))
            continue
        res = pristine_replay(pid, e["case"]) if e.get("pristine", True) else None
        if e.get("status") == "open":
            if (res is not None and res[0] != "HARNESS") or known_hit.get(e["id"]):
                lines.append("KNOWN-FINDING: property=%s %s [%s]" % (pid, e["what"], e["id"]))
        elif e.get("status") == "fixed":
            if res is not None and res[0] == "HARNESS":
                sys.stderr.write("HARNESS-ERROR regression replay %s: %s\n" % (e["id"], res[1]))
                rc = max(rc, 2)
            elif res is not None and (match_known(res[0], known) is None or any(fnmatch.fnmatchcase(res[0], pat) for pat in e.get("regress_buckets", []))):
                # (the case fails again: with the bucket it was repaired for, or with one that no open finding explains)
                violations.append(dict(bucket=res[0], campaign_bucket="regression:" + e["id"], case=e["case"], detail=res[1], count=1))
    # committed regression replays (corpus/<ID>/*.json) must pass
    regdir = os.path.join(VERIF, "corpus", pid, "regress")
    nreg = 0
    if os.path.isdir(regdir):
        for fn in sorted(os.listdir(regdir)):
            if not fn.endswith(".json"):
                continue
            with open(os.path.join(regdir, fn)) as fh:
                c = json.load(fh)
            nreg += 1
            res = pristine_replay(pid, c["case"])
            if res is not None and res[0] != "HARNESS" and match_known(res[0], known) is None:
                violations.append(dict(bucket=res[0], campaign_bucket="regress:" + fn, case=c["case"], detail=res[1], count=1))
    # 3. output
    os.makedirs(os.path.join(VERIF, "replays", pid), exist_ok=True)
    for v in violations:
        name = "%016x.json" % h64([v["bucket"], v["case"]])
        path = os.path.join(VERIF, "replays", pid, name)
        with open(path, "w") as f:
            json.dump(dict(property=pid, seed=seed, tier=tier, bucket=v["bucket"], case=v["case"], detail=v["detail"], count=v["count"]), f, indent=1)
        lines.append("VIOLATION property=%s replay=%s" % (pid, path))
        sys.stderr.write("violation bucket=%s count=%d detail=%s\n" % (v["bucket"], v["count"], str(v["detail"])[:600]))
        rc = max(rc, 1) if rc != 2 else 2
    if violations:
        rc = 1
    cov = dict(
        evaluations=int(total.evaluations),
        distinct_nontrivial=len(total.nontrivial),
        rule=mod.RULE,
        samples=(total.samples[:MAX_SAMPLES] or [dict(note="no non-trivial case in this run; a trivial or failing case instead", case=c) for c in (total.other_samples or [f["case"] for f in list(total.failures.values())[:3]])]),
        counters={k: int(v) for k, v in sorted(total.counters.items())},
        failure_buckets={b: f["count"] for b, f in sorted(total.failures.items())},
        known_findings_hit={k: int(v) for k, v in known_hit.items()},
        history_dependent=history_dependent,
        regression_replays=nreg,
    )
    if total.exhaustive:
        cov["exhaustive_subchecks"] = total.exhaustive
    ev = dict(
        property_id=pid,
        tier=tier,
        seed=int(seed),
        level="exploration",
        coverage=cov,
        assumptions=list(getattr(mod, "ASSUMPTIONS", [])),
        wall_s=round(time.time() - t0, 2),
        violations=len(violations),
    )
    for l in lines:
        print(l)
    sys.stdout.flush()
    try:
        write_evidence(pid, ev)
    except Exception as x:
        # (a tree so broken that no non-trivial case could be counted must still be reported through the lines above)
        sys.stderr.write("HARNESS-NOTE evidence for %s does not validate: %s\n" % (pid, str(x).splitlines()[0][:200]))
        if not violations:
            rc = max(rc, 2)
    print("%s tier=%s seed=%s evaluations=%d nontrivial=%d known_hit=%d violations=%d wall=%.1fs" % (
        pid, tier, seed, total.evaluations, len(total.nontrivial), sum(known_hit.values()), len(violations), time.time() - t0))
    return rc


def write_evidence(pid, ev):
    path = os.path.join(VERIF, "evidence", "%s.json" % pid)
    try:
        import jsonschema

        with open("/root/.vp/EVIDENCE.schema.json") as f:
            schema = json.load(f)
        jsonschema.validate(ev, schema)
    except ImportError:
        pass
    except FileNotFoundError:
        pass
    os.makedirs(os.path.dirname(path), exist_ok=True)
    with open(path, "w") as f:
        json.dump(ev, f, indent=1, sort_keys=True)
