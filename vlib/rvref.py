"""Reference interpreter for the RISC-V base integer ISA (RV32I / RV64I), written from
"The RISC-V Instruction Set Manual, Volume I: Unprivileged ISA" (chapters RV32I, RV64I and
the instruction listing table). Independent of amoco: own field extraction, own
immediates, own arithmetic on Python integers.

decode(word, xlen) -> (name, fields) | None      (None: not a base integer computational /
                                                  load / store / control transfer instruction)
step(word, xlen, regs, pc, load) -> Result | None
"""

M32 = (1 << 32) - 1


def bits(w, hi, lo):
    return (w >> lo) & ((1 << (hi - lo + 1)) - 1)


def sx(v, n):
    v &= (1 << n) - 1
    return v - (1 << n) if v >> (n - 1) else v


def imm_i(w):
    return sx(bits(w, 31, 20), 12)


def imm_s(w):
    return sx((bits(w, 31, 25) << 5) | bits(w, 11, 7), 12)


def imm_b(w):
    return sx((bits(w, 31, 31) << 12) | (bits(w, 7, 7) << 11) | (bits(w, 30, 25) << 5) | (bits(w, 11, 8) << 1), 13)


def imm_u(w):
    return sx(bits(w, 31, 12) << 12, 32)


def imm_j(w):
    return sx((bits(w, 31, 31) << 20) | (bits(w, 19, 12) << 12) | (bits(w, 20, 20) << 11) | (bits(w, 30, 21) << 1), 21)


LOADS = {0: ("LB", 1, True), 1: ("LH", 2, True), 2: ("LW", 4, True), 4: ("LBU", 1, False), 5: ("LHU", 2, False)}
LOADS64 = {3: ("LD", 8, True), 6: ("LWU", 4, False)}
STORES = {0: ("SB", 1), 1: ("SH", 2), 2: ("SW", 4)}
STORES64 = {3: ("SD", 8)}
BRANCHES = {0: "BEQ", 1: "BNE", 4: "BLT", 5: "BGE", 6: "BLTU", 7: "BGEU"}
OPIMM = {0: "ADDI", 2: "SLTI", 3: "SLTIU", 4: "XORI", 6: "ORI", 7: "ANDI"}
OP = {(0, 0): "ADD", (0x20, 0): "SUB", (0, 1): "SLL", (0, 2): "SLT", (0, 3): "SLTU", (0, 4): "XOR", (0, 5): "SRL", (0x20, 5): "SRA", (0, 6): "OR", (0, 7): "AND"}
OP32 = {(0, 0): "ADDW", (0x20, 0): "SUBW", (0, 1): "SLLW", (0, 5): "SRLW", (0x20, 5): "SRAW"}


def decode(w, xlen):
    """(name, rd, rs1, rs2, imm) or None"""
    if w & 3 != 3:
        return None
    opc = w & 0x7F
    rd, f3, rs1, rs2, f7 = bits(w, 11, 7), bits(w, 14, 12), bits(w, 19, 15), bits(w, 24, 20), bits(w, 31, 25)
    if opc == 0x37:
        return ("LUI", rd, None, None, imm_u(w))
    if opc == 0x17:
        return ("AUIPC", rd, None, None, imm_u(w))
    if opc == 0x6F:
        return ("JAL", rd, None, None, imm_j(w))
    if opc == 0x67:
        return ("JALR", rd, rs1, None, imm_i(w)) if f3 == 0 else None
    if opc == 0x63:
        return (BRANCHES[f3], None, rs1, rs2, imm_b(w)) if f3 in BRANCHES else None
    if opc == 0x03:
        t = LOADS.get(f3) or (LOADS64.get(f3) if xlen == 64 else None)
        return (t[0], rd, rs1, None, imm_i(w)) if t else None
    if opc == 0x23:
        t = STORES.get(f3) or (STORES64.get(f3) if xlen == 64 else None)
        return (t[0], None, rs1, rs2, imm_s(w)) if t else None
    if opc == 0x13:
        if f3 in OPIMM:
            return (OPIMM[f3], rd, rs1, None, imm_i(w))
        sh = bits(w, 25, 20) if xlen == 64 else bits(w, 24, 20)
        top = bits(w, 31, 26) << 1 if xlen == 64 else f7
        if f3 == 1 and top == 0:
            return ("SLLI", rd, rs1, None, sh)
        if f3 == 5 and top == 0:
            return ("SRLI", rd, rs1, None, sh)
        if f3 == 5 and top == 0x20:
            return ("SRAI", rd, rs1, None, sh)
        return None
    if opc == 0x33:
        n = OP.get((f7, f3))
        return (n, rd, rs1, rs2, None) if n else None
    if opc == 0x1B and xlen == 64:
        if f3 == 0:
            return ("ADDIW", rd, rs1, None, imm_i(w))
        if f3 == 1 and f7 == 0:
            return ("SLLIW", rd, rs1, None, rs2)
        if f3 == 5 and f7 == 0:
            return ("SRLIW", rd, rs1, None, rs2)
        if f3 == 5 and f7 == 0x20:
            return ("SRAIW", rd, rs1, None, rs2)
        return None
    if opc == 0x3B and xlen == 64:
        n = OP32.get((f7, f3))
        return (n, rd, rs1, rs2, None) if n else None
    if opc == 0x0F and f3 == 0:
        return ("FENCE", None, None, None, None)
    return None


class Result(object):
    __slots__ = ("name", "regs", "pc", "stores", "loads", "rd")

    def __init__(self, name, regs, pc, stores, loads, rd):
        self.name, self.regs, self.pc, self.stores, self.loads, self.rd = name, regs, pc, stores, loads, rd


def step(w, xlen, regs, pc, load):
    """regs: list of 32 unsigned ints (regs[0] == 0); load(addr, nbytes) -> unsigned little-endian int.
    Returns Result (regs after, next pc, [(addr, nbytes, value)] stores, [(addr, nbytes)] loads) or None"""
    d = decode(w, xlen)
    if d is None:
        return None
    name, rd, rs1, rs2, imm = d
    X = (1 << xlen) - 1
    u = lambda k: regs[k] & X
    s = lambda k: sx(regs[k], xlen)
    out = list(regs)
    npc = (pc + 4) & X
    stores = []
    loads = []
    val = None
    sham = 63 if xlen == 64 else 31
    if name == "LUI":
        val = imm
    elif name == "AUIPC":
        val = pc + imm
    elif name == "JAL":
        val = pc + 4
        npc = (pc + imm) & X
    elif name == "JALR":
        val = pc + 4
        npc = (u(rs1) + imm) & X & ~1
    elif name in ("BEQ", "BNE", "BLT", "BGE", "BLTU", "BGEU"):
        t = {"BEQ": u(rs1) == u(rs2), "BNE": u(rs1) != u(rs2), "BLT": s(rs1) < s(rs2), "BGE": s(rs1) >= s(rs2), "BLTU": u(rs1) < u(rs2), "BGEU": u(rs1) >= u(rs2)}[name]
        if t:
            npc = (pc + imm) & X
    elif name in ("LB", "LH", "LW", "LD", "LBU", "LHU", "LWU"):
        n, signed = {"LB": (1, True), "LH": (2, True), "LW": (4, True), "LD": (8, True), "LBU": (1, False), "LHU": (2, False), "LWU": (4, False)}[name]
        a = (u(rs1) + imm) & X
        v = load(a, n)
        loads.append((a, n))
        val = sx(v, 8 * n) if signed else v
    elif name in ("SB", "SH", "SW", "SD"):
        n = {"SB": 1, "SH": 2, "SW": 4, "SD": 8}[name]
        a = (u(rs1) + imm) & X
        stores.append((a, n, u(rs2) & ((1 << (8 * n)) - 1)))
    elif name == "ADDI":
        val = u(rs1) + imm
    elif name == "SLTI":
        val = 1 if s(rs1) < imm else 0
    elif name == "SLTIU":
        val = 1 if u(rs1) < (imm & X) else 0
    elif name == "XORI":
        val = u(rs1) ^ (imm & X)
    elif name == "ORI":
        val = u(rs1) | (imm & X)
    elif name == "ANDI":
        val = u(rs1) & (imm & X)
    elif name == "SLLI":
        val = u(rs1) << imm
    elif name == "SRLI":
        val = u(rs1) >> imm
    elif name == "SRAI":
        val = s(rs1) >> imm
    elif name == "ADD":
        val = u(rs1) + u(rs2)
    elif name == "SUB":
        val = u(rs1) - u(rs2)
    elif name == "SLL":
        val = u(rs1) << (u(rs2) & sham)
    elif name == "SLT":
        val = 1 if s(rs1) < s(rs2) else 0
    elif name == "SLTU":
        val = 1 if u(rs1) < u(rs2) else 0
    elif name == "XOR":
        val = u(rs1) ^ u(rs2)
    elif name == "SRL":
        val = u(rs1) >> (u(rs2) & sham)
    elif name == "SRA":
        val = s(rs1) >> (u(rs2) & sham)
    elif name == "OR":
        val = u(rs1) | u(rs2)
    elif name == "AND":
        val = u(rs1) & u(rs2)
    elif name == "ADDIW":
        val = sx(u(rs1) + imm, 32)
    elif name == "SLLIW":
        val = sx(u(rs1) << imm, 32)
    elif name == "SRLIW":
        val = sx((u(rs1) & M32) >> imm, 32)
    elif name == "SRAIW":
        val = sx(u(rs1), 32) >> imm
    elif name == "ADDW":
        val = sx(u(rs1) + u(rs2), 32)
    elif name == "SUBW":
        val = sx(u(rs1) - u(rs2), 32)
    elif name == "SLLW":
        val = sx(u(rs1) << (u(rs2) & 31), 32)
    elif name == "SRLW":
        val = sx((u(rs1) & M32) >> (u(rs2) & 31), 32)
    elif name == "SRAW":
        val = sx(u(rs1), 32) >> (u(rs2) & 31)
    elif name == "FENCE":
        pass
    else:
        raise AssertionError(name)
    if val is not None and rd:
        out[rd] = val & X
    return Result(name, out, npc, stores, loads, rd)


# ---------------------------------------------------------------------------
# generation (own encoders: the domain does not depend on amoco's specs)

R_OPS = [(0x33, f7, f3) for (f7, f3) in OP]
R_OPS64 = [(0x3B, f7, f3) for (f7, f3) in OP32]


def boundary(rnd, xlen):
    X = (1 << xlen) - 1
    k = rnd.randrange(12)
    if k < 6:
        return [0, 1, X, 1 << (xlen - 1), (1 << (xlen - 1)) - 1, 2][k]
    if k == 6:
        return rnd.getrandbits(5)
    if k == 7:
        return (X ^ rnd.getrandbits(5)) & X
    if k == 8 and xlen == 64:
        return [0x7FFFFFFF, 0x80000000, 0xFFFFFFFF, 0x100000000, 0xFFFFFFFF80000000, 0xFFFFFFFF7FFFFFFF][rnd.randrange(6)]
    if k == 9:
        return [0x7FF, 0x800, 0xFFF, 0x1000, X - 0x7FF, X - 0x800][rnd.randrange(6)] & X
    return rnd.getrandbits(xlen)


def gen_imm12(rnd):
    k = rnd.randrange(6)
    if k == 0:
        return [0, 1, 0x7FF, 0x800, 0xFFF, 0xFFE, 4, 0xFFC][rnd.randrange(8)]
    if k == 1:
        return rnd.getrandbits(5)
    return rnd.getrandbits(12)


def gen_reg(rnd):
    # a small set of registers (dependencies rs1 == rs2 == rd, x0 included) or any
    return [0, 0, 1, 2, 5, 6, 7, 10, 31][rnd.randrange(9)] if rnd.random() < 0.6 else rnd.randrange(32)


def gen_word(rnd, xlen):
    """a 32-bit word of a base opcode: 80% a valid encoding built field by field, 20% any word with a base major opcode"""
    ops = [0x37, 0x17, 0x6F, 0x67] + [0x63] * 3 + [0x03] * 3 + [0x23] * 2 + [0x13] * 5 + [0x33] * 5 + ([0x1B] * 3 + [0x3B] * 3 if xlen == 64 else [])
    opc = ops[rnd.randrange(len(ops))]
    if rnd.random() < 0.2:
        return (rnd.getrandbits(25) << 7) | opc
    rd, rs1, rs2 = gen_reg(rnd), gen_reg(rnd), gen_reg(rnd)
    if opc in (0x37, 0x17):
        imm20 = [0, 1, 0x7FFFF, 0x80000, 0xFFFFF][rnd.randrange(5)] if rnd.random() < 0.4 else rnd.getrandbits(20)
        return (imm20 << 12) | (rd << 7) | opc
    if opc == 0x6F:
        return (rnd.getrandbits(20) << 12) | (rd << 7) | opc if rnd.random() < 0.7 else ([0, 0x80000, 0x7FFFF, 0xFFFFF, 0x00100, 0x80100][rnd.randrange(6)] << 12) | (rd << 7) | opc
    if opc == 0x67:
        return (gen_imm12(rnd) << 20) | (rs1 << 15) | (rd << 7) | opc
    if opc == 0x63:
        f3 = [0, 1, 4, 5, 6, 7][rnd.randrange(6)]
        return (rnd.getrandbits(7) << 25) | (rs2 << 20) | (rs1 << 15) | (f3 << 12) | (rnd.getrandbits(5) << 7) | opc
    if opc == 0x03:
        f3 = ([0, 1, 2, 4, 5] + ([3, 6] if xlen == 64 else []))[rnd.randrange(7 if xlen == 64 else 5)]
        return (gen_imm12(rnd) << 20) | (rs1 << 15) | (f3 << 12) | (rd << 7) | opc
    if opc == 0x23:
        f3 = ([0, 1, 2] + ([3] if xlen == 64 else []))[rnd.randrange(4 if xlen == 64 else 3)]
        i = gen_imm12(rnd)
        return ((i >> 5) << 25) | (rs2 << 20) | (rs1 << 15) | (f3 << 12) | ((i & 31) << 7) | opc
    if opc == 0x13:
        f3 = rnd.randrange(8)
        if f3 in (1, 5):
            sh = rnd.getrandbits(6 if xlen == 64 else 5) if rnd.random() < 0.7 else [0, 1, 31, 32, 63][rnd.randrange(5)] & (63 if xlen == 64 else 31)
            top = 0x400 if (f3 == 5 and rnd.random() < 0.5) else 0
            return ((top | sh) << 20) | (rs1 << 15) | (f3 << 12) | (rd << 7) | opc
        return (gen_imm12(rnd) << 20) | (rs1 << 15) | (f3 << 12) | (rd << 7) | opc
    if opc == 0x33:
        _, f7, f3 = R_OPS[rnd.randrange(len(R_OPS))]
        return (f7 << 25) | (rs2 << 20) | (rs1 << 15) | (f3 << 12) | (rd << 7) | opc
    if opc == 0x1B:
        f3 = [0, 1, 5][rnd.randrange(3)]
        if f3 == 0:
            return (gen_imm12(rnd) << 20) | (rs1 << 15) | (rd << 7) | opc
        f7 = 0x20 if (f3 == 5 and rnd.random() < 0.5) else 0
        return (f7 << 25) | (rnd.getrandbits(5) << 20) | (rs1 << 15) | (f3 << 12) | (rd << 7) | opc
    _, f7, f3 = R_OPS64[rnd.randrange(len(R_OPS64))]
    return (f7 << 25) | (rs2 << 20) | (rs1 << 15) | (f3 << 12) | (rd << 7) | opc


def mem_byte(addr, salt):
    """the initial content of memory, defined everywhere"""
    x = (addr * 0x9E3779B1 + salt * 0x85EBCA6B) & 0xFFFFFFFF
    x ^= x >> 15
    x = (x * 0x2C1B3C6D) & 0xFFFFFFFF
    x ^= x >> 12
    k = (x >> 8) & 7
    if k == 0:
        return 0
    if k == 1:
        return 0xFF
    if k == 2:
        return 0x80
    return x & 0xFF


def self_test():
    regs = [0] * 32
    regs[5], regs[6] = 0xFFFFFFFF, 1
    ld = lambda a, n: int.from_bytes(bytes(mem_byte(a + i, 0) for i in range(n)), "little")
    # add x7,x5,x6
    r = step(0x33 | (7 << 7) | (5 << 15) | (6 << 20), 32, regs, 0x1000, ld)
    assert r.regs[7] == 0 and r.pc == 0x1004
    r = step(0x33 | (7 << 7) | (5 << 15) | (6 << 20), 64, regs, 0x1000, ld)
    assert r.regs[7] == 0x100000000
    # slt x7,x5,x6 : -1 < 1 (rv32) ; 0xffffffff > 1 (rv64)
    w = 0x33 | (7 << 7) | (2 << 12) | (5 << 15) | (6 << 20)
    assert step(w, 32, regs, 0, ld).regs[7] == 1 and step(w, 64, regs, 0, ld).regs[7] == 0
    # auipc x1, 0xfffff -> pc - 0x1000
    assert step(0x17 | (1 << 7) | (0xFFFFF << 12), 32, regs, 0x2000, ld).regs[1] == 0x1000
    assert step(0x17 | (1 << 7) | (0xFFFFF << 12), 64, regs, 0x2000, ld).regs[1] == 0x1000
    assert step(0x37 | (1 << 7) | (0x80000 << 12), 64, regs, 0, ld).regs[1] == 0xFFFFFFFF80000000
    # jal x1, -4
    w = 0x6F | (1 << 7) | (((0x1FFFFC >> 20) & 1) << 31) | (((0x1FFFFC >> 1) & 0x3FF) << 21) | (((0x1FFFFC >> 11) & 1) << 20) | (((0x1FFFFC >> 12) & 0xFF) << 12)
    r = step(w, 32, regs, 0x1000, ld)
    assert r.pc == 0xFFC and r.regs[1] == 0x1004, hex(r.pc)
    # x0 is never written
    assert step(0x13 | (0 << 7) | (5 << 20), 32, regs, 0, ld).regs[0] == 0
    # sraiw
    regs[5] = 0x80000000
    assert step(0x1B | (7 << 7) | (5 << 12) | (5 << 15) | (4 << 20) | (0x20 << 25), 64, regs, 0, ld).regs[7] == 0xFFFFFFFFF8000000
    return True
