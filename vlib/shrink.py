"""small deterministic reducers used after a campaign (no randomness)"""


def ddmin_list(items, fails, max_tests=400):
    items = list(items)
    n = 2
    tests = 0
    while len(items) >= 2 and tests < max_tests:
        chunk = max(1, len(items) // n)
        reduced = False
        for i in range(0, len(items), chunk):
            cand = items[:i] + items[i + chunk:]
            tests += 1
            if cand and fails(cand):
                items = cand
                n = max(n - 1, 2)
                reduced = True
                break
            if tests >= max_tests:
                break
        if not reduced:
            if chunk == 1:
                break
            n = min(len(items), n * 2)
    return items


def ddmin_bytes(b, fails, max_tests=400):
    b = bytes(ddmin_list(list(b), lambda l: fails(bytes(l)), max_tests))
    # then try to zero bytes
    out = bytearray(b)
    for i in range(len(out)):
        if out[i] != 0:
            c = bytearray(out)
            c[i] = 0
            if fails(bytes(c)):
                out = c
    return bytes(out)
