"""x86-64 general-purpose integer instruction vectors for C06: an operand-form grammar written from the
Intel SDM opcode tables (independent of amoco's specs), state construction so that every memory
operand lands in the data window of the native executor, the table of architecturally defined flags,
and the client of build/x86run (vlib/x86native/run.c)."""
import os
import struct
import subprocess

CODE = 0x10000000
INSN = CODE + 0x800
DATA = 0x10018000
DSZ = 4096
SPAGE = 0x1001E000
STACK = SPAGE + 0x800
SSZ = 4096
M64 = (1 << 64) - 1
M32 = (1 << 32) - 1
CF, PF, AF, ZF, SF, DF, OF = 1, 4, 0x10, 0x40, 0x80, 0x400, 0x800
STATUS = CF | PF | AF | ZF | SF | OF
FLAGBITS = {"cf": 0, "pf": 2, "af": 4, "zf": 6, "sf": 7, "df": 10, "of": 11}
RUN = os.path.join(os.path.dirname(os.path.dirname(os.path.abspath(__file__))), "build", "x86run")


def _mkB():
    out = bytearray()
    for k in range(256):
        x = (k * 0x9E3779B1) & M32
        x ^= x >> 15
        x = (x * 0x2C1B3C6D) & M32
        x ^= x >> 12
        c = (x >> 8) & 7
        out.append([0, 0xFF, 0x80, 0x7F][c] if c < 4 else x & 0xFF)
    return bytes(out)


B = _mkB() * 2
XOR = [bytes(i ^ x for i in range(256)) for x in range(256)]


def fill(j0, salt):
    """16 blocks of 256 bytes: the table B rotated by (salt + 37*j), xored with a salt byte for half of the salts
    (mirrors fill() of vlib/x86native/run.c)"""
    x = (salt >> 8) & 0xFF if (salt >> 16) & 1 else 0
    out = b"".join(B[(salt + 37 * (j0 + j)) & 0xFF:][:256] for j in range(16))
    return out.translate(XOR[x]) if x else out


def data_bytes(salt, poke=None):
    b = fill(0, salt)
    if poke:
        b = b[:poke[0]] + struct.pack("<Q", poke[1]) + b[poke[0] + 8:]
    return b


def stack_bytes(salt, stk0=None):
    b = fill(16, salt)
    if stk0 is not None:
        b = b[:0x800] + struct.pack("<Q", stk0) + b[0x808:]
    return b


# ---------------------------------------------------------------------------------------------
# grammar. Each form: (name, opcode bytes, kind, extra)
#   kinds: 'rm_r' (/r, dest r/m), 'r_rm' (/r, dest reg), 'rm' (/digit), 'rm_ib', 'rm_iz', 'acc_ib', 'acc_iz',
#          'plusr' (opcode+reg), 'plusr_iv', 'none', 'rel8', 'rel32', 'moffs', 'ib', 'iz'
#   w: 0 -> byte operation, 1 -> operand size by prefixes

ALU = ["ADD", "OR", "ADC", "SBB", "AND", "SUB", "XOR", "CMP"]
SHF = {0: "ROL", 1: "ROR", 2: "RCL", 3: "RCR", 4: "SHL", 5: "SHR", 7: "SAR"}
FORMS = []


def F(name, opc, kind, w=1, digit=None, mem=None, **kw):
    FORMS.append(dict(name=name, opc=bytes(opc), kind=kind, w=w, digit=digit, mem=mem, **kw))


for n, nm in enumerate(ALU):
    F(nm, [8 * n + 0], "rm_r", w=0)
    F(nm, [8 * n + 1], "rm_r")
    F(nm, [8 * n + 2], "r_rm", w=0)
    F(nm, [8 * n + 3], "r_rm")
    F(nm, [8 * n + 4], "acc_ib", w=0)
    F(nm, [8 * n + 5], "acc_iz")
    F(nm, [0x80], "rm_ib", w=0, digit=n)
    F(nm, [0x81], "rm_iz", digit=n)
    F(nm, [0x83], "rm_ib", digit=n)
F("TEST", [0x84], "rm_r", w=0)
F("TEST", [0x85], "rm_r")
F("TEST", [0xA8], "acc_ib", w=0)
F("TEST", [0xA9], "acc_iz")
F("TEST", [0xF6], "rm_ib", w=0, digit=0)
F("TEST", [0xF7], "rm_iz", digit=0)
for d, nm in ((2, "NOT"), (3, "NEG"), (4, "MUL"), (5, "IMUL1"), (6, "DIV"), (7, "IDIV")):
    F(nm, [0xF6], "rm", w=0, digit=d)
    F(nm, [0xF7], "rm", digit=d)
for d, nm in ((0, "INC"), (1, "DEC")):
    F(nm, [0xFE], "rm", w=0, digit=d)
    F(nm, [0xFF], "rm", digit=d)
F("IMUL2", [0x0F, 0xAF], "r_rm")
F("IMUL3", [0x69], "r_rm_iz")
F("IMUL3", [0x6B], "r_rm_ib")
for d, nm in SHF.items():
    F(nm, [0xC0], "rm_ib", w=0, digit=d, shift="imm")
    F(nm, [0xC1], "rm_ib", digit=d, shift="imm")
    F(nm, [0xD0], "rm", w=0, digit=d, shift="one")
    F(nm, [0xD1], "rm", digit=d, shift="one")
    F(nm, [0xD2], "rm", w=0, digit=d, shift="cl")
    F(nm, [0xD3], "rm", digit=d, shift="cl")
F("SHLD", [0x0F, 0xA4], "rm_r_ib", shift="imm")
F("SHLD", [0x0F, 0xA5], "rm_r", shift="cl")
F("SHRD", [0x0F, 0xAC], "rm_r_ib", shift="imm")
F("SHRD", [0x0F, 0xAD], "rm_r", shift="cl")
F("MOV", [0x88], "rm_r", w=0)
F("MOV", [0x89], "rm_r")
F("MOV", [0x8A], "r_rm", w=0)
F("MOV", [0x8B], "r_rm")
F("MOV", [0xB0], "plusr_ib", w=0)
F("MOV", [0xB8], "plusr_iv")
F("MOV", [0xC6], "rm_ib", w=0, digit=0)
F("MOV", [0xC7], "rm_iz", digit=0)
F("MOV", [0xA0], "moffs", w=0)
F("MOV", [0xA1], "moffs")
F("MOV", [0xA2], "moffs", w=0)
F("MOV", [0xA3], "moffs")
F("MOVZX", [0x0F, 0xB6], "r_rm", src=8)
F("MOVZX", [0x0F, 0xB7], "r_rm", src=16)
F("MOVSX", [0x0F, 0xBE], "r_rm", src=8)
F("MOVSX", [0x0F, 0xBF], "r_rm", src=16)
F("MOVSXD", [0x63], "r_rm", src=32)
F("LEA", [0x8D], "r_rm", mem=True, lea=True)
F("XCHG", [0x86], "rm_r", w=0)
F("XCHG", [0x87], "rm_r")
F("XCHG", [0x90], "plusr")
F("XADD", [0x0F, 0xC0], "rm_r", w=0)
F("XADD", [0x0F, 0xC1], "rm_r")
F("CMPXCHG", [0x0F, 0xB0], "rm_r", w=0)
F("CMPXCHG", [0x0F, 0xB1], "rm_r")
F("BSWAP", [0x0F, 0xC8], "plusr")
for o, nm in ((0xA3, "BT"), (0xAB, "BTS"), (0xB3, "BTR"), (0xBB, "BTC")):
    F(nm, [0x0F, o], "rm_r", bt=True)
for d, nm in ((4, "BT"), (5, "BTS"), (6, "BTR"), (7, "BTC")):
    F(nm, [0x0F, 0xBA], "rm_ib", digit=d, bt=True)
F("BSF", [0x0F, 0xBC], "r_rm")
F("BSR", [0x0F, 0xBD], "r_rm")
F("POPCNT", [0x0F, 0xB8], "r_rm", mand=0xF3)
for cc in range(16):
    F("SETcc", [0x0F, 0x90 + cc], "rm", w=0, digit=0, cc=cc)
    F("CMOVcc", [0x0F, 0x40 + cc], "r_rm", cc=cc)
    F("Jcc", [0x70 + cc], "rel8", cc=cc)
    F("Jcc", [0x0F, 0x80 + cc], "rel32", cc=cc)
F("JMP", [0xEB], "rel8")
F("JMP", [0xE9], "rel32")
F("CALL", [0xE8], "rel32", stack=True)
F("LOOP", [0xE2], "rel8")
F("LOOPE", [0xE1], "rel8")
F("LOOPNE", [0xE0], "rel8")
F("JRCXZ", [0xE3], "rel8")
F("JMPI", [0xFF], "rm", digit=4, indirect=True, op64=True)
F("CALLI", [0xFF], "rm", digit=2, indirect=True, stack=True, op64=True)
F("RET", [0xC3], "none", stack=True, ret=True, op64=True)
F("RET", [0xC2], "iw", stack=True, ret=True, op64=True)
F("PUSH", [0x50], "plusr", stack=True, op64=True)
F("POP", [0x58], "plusr", stack=True, op64=True)
F("PUSH", [0x6A], "ib", stack=True, op64=True)
F("PUSH", [0x68], "iz", stack=True, op64=True)
F("PUSH", [0xFF], "rm", digit=6, stack=True, op64=True)
F("POP", [0x8F], "rm", digit=0, stack=True, op64=True)
F("PUSHF", [0x9C], "none", stack=True, op64=True)
F("POPF", [0x9D], "none", stack=True, op64=True, popf=True)
F("LEAVE", [0xC9], "none", stack=True, leave=True, op64=True)
F("LAHF", [0x9F], "none", w=0)
F("SAHF", [0x9E], "none", w=0)
F("CLC", [0xF8], "none", w=0)
F("STC", [0xF9], "none", w=0)
F("CMC", [0xF5], "none", w=0)
F("CLD", [0xFC], "none", w=0)
F("STD", [0xFD], "none", w=0)
F("CBW", [0x98], "none")
F("CWD", [0x99], "none")
F("NOP", [0x90], "none", w=0)
F("NOP", [0x0F, 0x1F], "rm", digit=0)
for o, nm in ((0xA4, "MOVS"), (0xAA, "STOS"), (0xAC, "LODS"), (0xAE, "SCAS"), (0xA6, "CMPS")):
    F(nm, [o], "none", w=0, string=True)
    F(nm, [o + 1], "none", string=True)

NAMES = sorted(set(f["name"] for f in FORMS))
BY_NAME = dict((n, [f for f in FORMS if f["name"] == n]) for n in NAMES)


def boundary(rnd, bits=64):
    X = (1 << bits) - 1
    k = rnd.randrange(14)
    if k < 6:
        return [0, 1, X, 1 << (bits - 1), (1 << (bits - 1)) - 1, 2][k]
    if k == 6:
        return [0x7F, 0x80, 0xFF, 0x100, 0x7FFF, 0x8000, 0xFFFF, 0x10000][rnd.randrange(8)] & X
    if k == 7:
        return [0x7FFFFFFF, 0x80000000, 0xFFFFFFFF, 0x100000000, 0xFFFFFFFF80000000, 0xFFFFFFFF00000000, 0xFFFFFFFFFFFFFF80, 0xFFFFFFFFFFFF8000][rnd.randrange(8)] & X
    if k == 8:
        return rnd.getrandbits(6)
    if k == 9:
        return (X - rnd.getrandbits(6)) & X
    if k == 10:
        return 1 << rnd.randrange(bits)
    return rnd.getrandbits(bits)


def gen_imm(rnd, nbytes):
    bits = 8 * nbytes
    k = rnd.randrange(4)
    if k == 0:
        v = [0, 1, (1 << bits) - 1, 1 << (bits - 1), (1 << (bits - 1)) - 1][rnd.randrange(5)]
    elif k == 1:
        v = rnd.getrandbits(6)
    else:
        v = rnd.getrandbits(bits)
    return v.to_bytes(nbytes, "little")


def gen_vector(rnd, ia32=False):
    """returns a vector dict: code (hex), regs[16], flags, salt, tgt, stk0, meta{name, opsize, ...} or None (discarded draw).
    ia32=True restricts to forms whose encoding and meaning are the same in 32-bit mode."""
    nm = NAMES[rnd.randrange(len(NAMES))]
    fl = BY_NAME[nm]
    f = fl[rnd.randrange(len(fl))]
    kind = f["kind"]
    if ia32 and (f.get("stack") or f["name"] in ("MOVSXD", "JRCXZ", "LOOP", "LOOPE", "LOOPNE") or kind == "moffs" or f.get("indirect") or f.get("string")):
        return None
    # prefixes
    p66 = rnd.random() < 0.2
    p67 = (not ia32) and rnd.random() < 0.1
    rex = 0
    if not ia32 and rnd.random() < 0.55:
        rex = 0x40 | rnd.getrandbits(4)
        if rnd.random() < 0.3:
            rex |= 8
    W, R, X, B = (rex >> 3) & 1, (rex >> 2) & 1, (rex >> 1) & 1, rex & 1
    if f["w"] == 0:
        opsize = 8
    elif W:
        opsize = 64
    elif p66:
        opsize = 16
    elif f.get("op64"):
        opsize = 64
    else:
        opsize = 32
    if f.get("op64") and p66 and not W:
        if f.get("indirect") or f.get("ret") or f["name"] in ("CALL",):
            return None  # 16-bit ip truncation: not modelled
    if kind in ("rel8", "rel32") and p66:
        return None
    regs = [boundary(rnd) for _ in range(16)]
    if ia32:
        regs = [r & M32 for r in regs]
    if rnd.random() < 0.25:
        a = boundary(rnd)
        regs = [((a + rnd.randrange(-1, 2)) & (M32 if ia32 else M64)) if rnd.random() < 0.6 else r for r in regs]
    regs[4] = STACK
    flags = 0x202
    for b in (CF, PF, AF, ZF, SF, OF):
        if rnd.random() < 0.5:
            flags |= b
    salt = rnd.getrandbits(20)
    tgt = 0
    stk0 = None
    poke = None
    meta = dict(name=f["name"], opsize=opsize, kind=kind, ia32=ia32)
    for k in ("shift", "bt", "cc", "src", "string", "lea", "popf", "leave", "ret", "indirect", "stack"):
        if f.get(k) is not None:
            meta[k] = f[k]
    body = bytes(f["opc"])
    tail = b""
    immsz = {8: 1, 16: 2, 32: 4, 64: 4}[opsize]
    modrm_needed = kind in ("rm_r", "r_rm", "rm", "rm_ib", "rm_iz", "r_rm_iz", "r_rm_ib", "rm_r_ib")
    memaddr = None
    if kind in ("plusr", "plusr_ib", "plusr_iv"):
        r = rnd.randrange(8)
        body = body[:-1] + bytes([body[-1] + r])
        meta["reg"] = r + 8 * B
        if f["name"] == "XCHG" and r == 0 and not B:
            return None  # 90 is NOP
        if f["name"] == "BSWAP" and opsize == 16:
            meta["undef_dest"] = True
        if kind == "plusr_ib":
            tail = gen_imm(rnd, 1)
        elif kind == "plusr_iv":
            tail = gen_imm(rnd, {16: 2, 32: 4, 64: 8}[opsize])
    elif kind in ("acc_ib", "ib"):
        tail = gen_imm(rnd, 1)
    elif kind in ("acc_iz", "iz"):
        tail = gen_imm(rnd, immsz)
    elif kind == "iw":
        tail = struct.pack("<H", 8 * rnd.randrange(0, 4))
    elif kind == "moffs":
        memaddr = DATA + 0x100 + rnd.randrange(0, 0xE00)
        if p67:
            tail = struct.pack("<I", memaddr)
        else:
            tail = struct.pack("<Q", memaddr)
    elif kind in ("rel8", "rel32"):
        tgt_rel = rnd.randrange(0x20, 0x70) if rnd.random() < 0.7 else -rnd.randrange(0x20, 0x70)
        tail = struct.pack("<b", tgt_rel) if kind == "rel8" else struct.pack("<i", tgt_rel)
    if f.get("string"):
        # rsi / rdi into the window, direction flag random
        if rnd.random() < 0.5:
            flags |= DF
        regs[6] = DATA + 0x100 + rnd.randrange(0, 0x600)
        regs[7] = DATA + 0x800 + rnd.randrange(0, 0x700)
        if p67:
            regs[6] |= rnd.getrandbits(32) << 32
            regs[7] |= rnd.getrandbits(32) << 32
    if f.get("leave"):
        regs[5] = STACK + 8 * rnd.randrange(-3, 4)
    if f.get("popf"):
        v = 0x202
        for b in (CF, PF, AF, ZF, SF, OF, DF):
            if rnd.random() < 0.5:
                v |= b
        stk0 = v
    if f.get("shift") == "cl" and rnd.random() < 0.6:
        regs[1] = (regs[1] & ~0xFF) | [0, 1, 7, 8, 9, 15, 16, 17, 31, 32, 33, 63, 64, 65][rnd.randrange(14)]
    if f["name"] in ("DIV", "IDIV") and rnd.random() < 0.8:
        # keep the quotient representable most of the time
        if opsize == 8:
            regs[0] = (regs[0] & ~0xFF00) | ((0xFF00 if (f["name"] == "IDIV" and regs[0] & 0x80) else 0) if rnd.random() < 0.7 else (rnd.getrandbits(3) << 8))
        else:
            neg = f["name"] == "IDIV" and (regs[0] >> (opsize - 1)) & 1
            regs[2] = (M64 if neg else 0) if rnd.random() < 0.7 else rnd.getrandbits(3)
    if modrm_needed:
        want_mem = f["mem"] if f["mem"] is not None else (rnd.random() < 0.45)
        reg = f["digit"] if f["digit"] is not None else rnd.randrange(8)
        if not want_mem:
            rm = rnd.randrange(8)
            body += bytes([0xC0 | (reg << 3) | rm])
            meta["rm_reg"] = rm + 8 * B
        else:
            if f.get("bt") and kind == "rm_r":
                # the bit offset register selects memory outside the operand: keep it near
                k = reg + 8 * R
                if k == 4:
                    return None
                v = rnd.randrange(-256, 512)
                regs[k] = v & (M32 if ia32 else M64) if opsize == 64 or ia32 and opsize == 32 else (regs[k] & ~((1 << opsize) - 1) & M64) | (v & ((1 << opsize) - 1))
                meta["bt_reg"] = k
            before = regs[meta["bt_reg"]] if "bt_reg" in meta else None
            r = build_mem(rnd, regs, reg, rex, p67, ia32, f)
            if r is None or (before is not None and regs[meta["bt_reg"]] != before):
                return None
            mb, memaddr, riprel = r
            body += mb
            meta["riprel"] = riprel
        if f["digit"] is None:
            meta["reg"] = reg + 8 * R
        if kind in ("rm_ib", "r_rm_ib", "rm_r_ib"):
            tail = gen_imm(rnd, 1)
            if f.get("shift") == "imm" and rnd.random() < 0.5:
                tail = bytes([[0, 1, 7, 8, 9, 15, 16, 17, 31, 32, 33, 63, 64, 0x80 | 1][rnd.randrange(14)]])
        elif kind in ("rm_iz", "r_rm_iz"):
            tail = gen_imm(rnd, immsz)
    pfx = b""
    if f.get("mand"):
        pfx += bytes([f["mand"]])
    if p67:
        pfx += b"\x67"
    if p66:
        pfx += b"\x66"
    if f.get("mand") and p66:
        return None
    code = pfx + (bytes([rex]) if rex else b"") + body + tail
    if len(code) > 15:
        return None
    if meta.get("riprel"):
        # rip-relative: displacement relative to the end of the instruction
        pos = len(pfx) + (1 if rex else 0) + len(body) - 4
        disp = memaddr - (INSN + len(code))
        code = code[:pos] + struct.pack("<i", disp) + code[pos + 4:]
    if kind in ("rel8", "rel32"):
        tgt = len(code) + tgt_rel
        if -14 < tgt < len(code) + 14 and tgt != 0:
            return None
        if f["name"] in ("LOOP", "LOOPE", "LOOPNE", "JRCXZ") and rnd.random() < 0.5:
            regs[1] = [0, 1, 2, 1 << 32, (1 << 32) + 1, M64][rnd.randrange(6)]
    if f.get("indirect"):
        tgt = 0x40 + 2 * rnd.randrange(0, 16)
        dest = INSN + tgt
        if memaddr is not None:
            if not (DATA <= memaddr <= DATA + DSZ - 8):
                return None
            poke = (memaddr - DATA, dest)
        else:
            k = meta["rm_reg"]
            if k == 4:
                return None
            regs[k] = dest
        meta["dest"] = dest
    if f.get("ret"):
        tgt = 0x40 + 2 * rnd.randrange(0, 16)
        stk0 = INSN + tgt
    if memaddr is not None:
        meta["memaddr"] = memaddr
    if ia32 and any(r > M32 for r in regs):
        return None
    return dict(code=code.hex(), regs=regs, flags=flags, salt=salt, tgt=tgt, stk0=stk0, poke=poke, meta=meta)


def build_mem(rnd, regs, reg, rex, p67, ia32, f):
    """ModRM(+SIB+disp) bytes for a memory operand and register values such that the effective address is inside the
    data window. Returns (bytes, address, riprel) or None"""
    W, R, X, B = (rex >> 3) & 1, (rex >> 2) & 1, (rex >> 1) & 1, rex & 1
    target = DATA + [0, 1, 0x100, 0xFF8, 0xFF0, 0x800][rnd.randrange(6)] if rnd.random() < 0.15 else DATA + 0x100 + rnd.randrange(0, 0xE00)
    if f.get("stack") and rnd.random() < 0.3:
        target = STACK - 64 + 8 * rnd.randrange(0, 16)
    abits = 32 if p67 else 64
    A = (1 << abits) - 1
    mod = rnd.randrange(3)
    rm = rnd.randrange(8)
    disp = 0
    dispb = b""
    if mod == 1:
        disp = [0, 1, -1, 0x7F, -0x80][rnd.randrange(5)] if rnd.random() < 0.5 else rnd.randrange(-128, 128)
        dispb = struct.pack("<b", disp)
    elif mod == 2:
        disp = [0, 1, -1, 0x7FFFFFFF, -0x80000000, 0x1000][rnd.randrange(6)] if rnd.random() < 0.5 else rnd.randrange(-(1 << 31), 1 << 31)
        if ia32:
            disp = rnd.randrange(0, 0x100)
        dispb = struct.pack("<i", disp)
    if ia32 and mod == 1:
        disp = rnd.randrange(0, 0x80)
        dispb = struct.pack("<b", disp)

    def setreg(k, v, keep_high=False):
        if k == 4 and f.get("stack"):
            return False
        if abits == 32 and not ia32:
            v = (v & M32) | (rnd.getrandbits(32) << 32)
        regs[k] = v & M64
        return True

    if rm == 4:
        scale = rnd.randrange(4)
        index = rnd.randrange(8)
        base = rnd.randrange(8)
        sib = bytes([(scale << 6) | (index << 3) | base])
        xi = index + 8 * X
        bi = base + 8 * B
        has_index = xi != 4
        no_base = mod == 0 and base == 5
        if no_base:
            if has_index:
                iv = rnd.randrange(0, 64)
                if not setreg(xi, iv):
                    return None
                iv = regs[xi] & A
                d = target - ((iv << scale) & A)
            else:
                d = target
            if not (-(1 << 31) <= d < (1 << 31)):
                return None
            return bytes([(reg << 3) | 4]) + sib + struct.pack("<i", d), target, False
        if has_index and xi == bi:
            return None
        iv = 0
        if has_index:
            iv = rnd.randrange(0, 256) if (ia32 or rnd.random() < 0.5) else boundary(rnd)
            if not setreg(xi, iv):
                return None
            iv = regs[xi] & A
        bv = (target - disp - (iv << scale)) & A
        if ia32 and (target - disp - (iv << scale)) < 0:
            return None
        if not setreg(bi, bv):
            return None
        if has_index and (regs[xi] & A) != iv:
            return None
        return bytes([(mod << 6) | (reg << 3) | 4]) + sib + dispb, target, False
    if mod == 0 and rm == 5:
        if ia32:
            return None  # disp32-only in 32-bit mode, rip-relative in 64-bit mode: not the same meaning
        # rip-relative (eip-relative under 67): displacement patched when the length is known
        return bytes([(reg << 3) | 5]) + b"\0\0\0\0", target, True
    bi = rm + 8 * B
    bv = (target - disp) & A
    if ia32 and target - disp < 0:
        return None
    if not setreg(bi, bv):
        return None
    return bytes([(mod << 6) | (reg << 3) | rm]) + dispb, target, False


# ---------------------------------------------------------------------------------------------
# architecturally defined flags (Intel SDM vol. 2, "Flags Affected" of each instruction)


def shift_count(v):
    m = v["meta"]
    code = bytes.fromhex(v["code"])
    if m.get("shift") == "one":
        c = 1
    elif m.get("shift") == "imm":
        c = code[-1]
    else:
        c = v["regs"][1] & 0xFF
    return c & (0x3F if m["opsize"] == 64 else 0x1F)


def defined(v):
    """(mask of status flags to compare, compare_dest) for this vector"""
    m = v["meta"]
    n = m["name"]
    sz = m["opsize"]
    if n in ("AND", "OR", "XOR", "TEST"):
        return STATUS & ~AF, True
    if n in ("MUL", "IMUL1", "IMUL2", "IMUL3"):
        return CF | OF, True
    if n in ("DIV", "IDIV"):
        return 0, True
    if n in ("SHL", "SHR", "SAR"):
        c = shift_count(v)
        if c == 0:
            return STATUS, True
        k = SF | ZF | PF
        if c < sz or n == "SAR":
            k |= CF
        if c == 1:
            k |= OF
        return k, True
    if n in ("ROL", "ROR", "RCL", "RCR"):
        c = shift_count(v)
        if c == 0:
            return STATUS, True
        if n in ("RCL", "RCR") and sz < 32:
            c %= sz + 1
        if c == 0:
            return STATUS & ~OF & ~CF | CF, True
        k = SF | ZF | PF | AF | CF
        if c == 1:
            k |= OF
        return k, True
    if n in ("SHLD", "SHRD"):
        c = shift_count(v)
        if c == 0:
            return STATUS, True
        if c > sz:
            return 0, False
        k = SF | ZF | PF | CF
        if c == 1:
            k |= OF
        return k, True
    if n in ("BT", "BTS", "BTR", "BTC"):
        return CF | ZF, True
    if n in ("BSF", "BSR"):
        return ZF, "bsx"
    if n == "BSWAP" and sz == 16:
        return STATUS, False
    return STATUS, True


# ---------------------------------------------------------------------------------------------
# native execution

_proc = None


def have_native():
    return os.access(RUN, os.X_OK)


def pack_vector(v):
    code = bytes.fromhex(v["code"])
    poke = v.get("poke")
    return struct.pack("<B15s16QQIiQBBHIQ", len(code), code.ljust(15, b"\0"), *v["regs"], v["flags"], v["salt"], v["tgt"], v["stk0"] or 0, 1 if v["stk0"] is not None else 0,
                       1 if poke else 0, poke[0] if poke else 0, 0, poke[1] if poke else 0)


def run_native(vectors):
    """list of results dict(sig, taken, regs, flags, data, stack)"""
    inp = b"".join(pack_vector(v) for v in vectors)
    r = subprocess.run([RUN], input=inp, capture_output=True)
    out = r.stdout
    n = 8 + 136 + DSZ + SSZ
    res = []
    for k in range(len(out) // n):
        b = out[k * n: (k + 1) * n]
        sig, taken = struct.unpack_from("<II", b, 0)
        vals = struct.unpack_from("<17Q", b, 8)
        res.append(dict(sig=sig, taken=taken, regs=list(vals[:16]), flags=vals[16], data=b[144: 144 + DSZ], stack=b[144 + DSZ:]))
    # a vector that kills the executor (not a caught signal) ends the batch: the rest has no reference
    while len(res) < len(vectors):
        res.append(None)
    return res


def compact(v, r):
    """table row: the vector and the native result as differences to the initial state"""
    d0 = data_bytes(v["salt"], v.get("poke"))
    s0 = stack_bytes(v["salt"], v["stk0"])
    dd = [(i, r["data"][i]) for i in range(DSZ) if r["data"][i] != d0[i]]
    sd = [(i, r["stack"][i]) for i in range(SSZ) if r["stack"][i] != s0[i]]
    return dict(v=v, sig=r["sig"], taken=r["taken"], regs=r["regs"], flags=r["flags"], dd=dd, sd=sd)


def expand(row):
    v = row["v"]
    d = bytearray(data_bytes(v["salt"], v.get("poke")))
    s = bytearray(stack_bytes(v["salt"], v["stk0"]))
    for i, b in row["dd"]:
        d[i] = b
    for i, b in row["sd"]:
        s[i] = b
    return v, dict(sig=row["sig"], taken=row["taken"], regs=row["regs"], flags=row["flags"], data=bytes(d), stack=bytes(s))


def self_test():
    """the Python mirror of the executor's page contents and register passing agrees with the executor (a NOP leaves
    everything as given); a mismatch is a harness error, never a finding"""
    regs = [(0x0123456789ABCDEF * (k + 1)) & M64 for k in range(16)]
    regs[4] = STACK
    for salt, stk0, poke in ((5, None, None), (0x1F2E3, 0x1122334455667788, (0x10, 0xCAFEBABE12345678))):
        v = dict(code="90", regs=regs, flags=0x202 | CF | ZF, salt=salt, tgt=0, stk0=stk0, poke=poke, meta=dict(name="NOP", opsize=8, kind="none", ia32=False))
        r = run_native([v])[0]
        assert r is not None and r["sig"] == 0 and r["taken"] == 0, r and r["sig"]
        assert r["regs"] == regs, "register passing"
        assert r["flags"] & STATUS == CF | ZF, hex(r["flags"])
        assert r["data"] == data_bytes(salt, poke), "data page mirror"
        assert r["stack"] == stack_bytes(salt, stk0), "stack page mirror"
    return True
