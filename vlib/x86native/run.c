// native reference executor for C06: executes one instruction on a given register/flag/memory state.
// stdin : records of 184 bytes  { u8 len; u8 code[15]; u64 r[16]; u64 flags; u32 salt; s32 tgt; u64 stk0; u8 use_stk0; u8 use_poke; u16 poke_off; u32 pad; u64 poke_val; }
//         (stk0: qword placed at the top of the stack; poke: qword placed at DATA+poke_off)
// stdout: records of 8336 bytes { u32 sig; u32 taken; u64 r[16]; u64 flags; u8 data[4096]; u8 stack[4096]; }
// layout: code page at CODE (instruction at CODE+0x800, "not taken" stub right after it, "taken" stub at +tgt),
//         one data page at DATA and one stack page at SPAGE (rsp = SPAGE+0x800), each between unmapped pages so
//         that every access outside them faults. Page contents are a function of salt (see fill()).
#define _GNU_SOURCE
#include <stdio.h>
#include <stdlib.h>
#include <string.h>
#include <stdint.h>
#include <signal.h>
#include <setjmp.h>
#include <sys/mman.h>
#include <unistd.h>
#define CODE  0x10000000UL
#define INSN  (CODE+0x800)
#define DATA  0x10018000UL
#define DSZ   4096
#define SPAGE 0x1001E000UL
#define STACK (SPAGE+0x800)
#define SSZ   4096
struct ctx { uint64_t r[16]; uint64_t flags; };
struct ctx in, out; uint64_t codeaddr=INSN; uint64_t saved_rsp; volatile uint32_t taken;
static sigjmp_buf jb; static volatile int sig;
static void h(int s){ sig=s; siglongjmp(jb,1); }
extern void tramp(void); extern void back_ft(void); extern void back_taken(void);
__asm__(
".globl tramp\n tramp:\n"
" push %rbx; push %rbp; push %r12; push %r13; push %r14; push %r15\n"
" mov %rsp, saved_rsp(%rip)\n"
" lea in(%rip), %rax\n"
" push 128(%rax); popfq\n"
" mov 8(%rax),%rcx; mov 16(%rax),%rdx; mov 24(%rax),%rbx; mov 40(%rax),%rbp; mov 48(%rax),%rsi; mov 56(%rax),%rdi\n"
" mov 64(%rax),%r8; mov 72(%rax),%r9; mov 80(%rax),%r10; mov 88(%rax),%r11; mov 96(%rax),%r12; mov 104(%rax),%r13; mov 112(%rax),%r14; mov 120(%rax),%r15\n"
" mov 32(%rax),%rsp\n"
" mov 0(%rax),%rax\n"
" jmp *codeaddr(%rip)\n"
".globl back_taken\n back_taken:\n"
" movl $1, taken(%rip)\n"
".globl back_ft\n back_ft:\n"
" mov %rax, out(%rip)\n"
" lea out(%rip), %rax\n"
" mov %rcx,8(%rax); mov %rdx,16(%rax); mov %rbx,24(%rax); mov %rsp,32(%rax); mov %rbp,40(%rax); mov %rsi,48(%rax); mov %rdi,56(%rax)\n"
" mov %r8,64(%rax); mov %r9,72(%rax); mov %r10,80(%rax); mov %r11,88(%rax); mov %r12,96(%rax); mov %r13,104(%rax); mov %r14,112(%rax); mov %r15,120(%rax)\n"
" mov saved_rsp(%rip), %rsp\n"
" pushfq; pop 128(%rax)\n"
" cld\n"
" pop %r15; pop %r14; pop %r13; pop %r12; pop %rbp; pop %rbx\n"
" ret\n");
static uint8_t B[256];
static void mkB(void){ for(uint32_t k=0;k<256;k++){ uint32_t x=k*0x9E3779B1u; x^=x>>15; x*=0x2C1B3C6Du; x^=x>>12; uint32_t c=(x>>8)&7;
  B[k]= c==0?0: c==1?0xff: c==2?0x80: c==3?0x7f: (uint8_t)x; } }
// block j (256 bytes) of the 32 blocks (16 data, 16 stack): B rotated by (salt + 37*j), xored with a salt byte for half of the salts
static void fill(unsigned char *p, uint32_t j0, uint32_t salt){
  uint8_t x = (salt>>16)&1 ? (salt>>8)&0xff : 0;
  for(uint32_t j=0;j<16;j++){ uint32_t rot=(salt+37*(j0+j))&0xff; for(uint32_t i=0;i<256;i++) p[256*j+i]=B[(i+rot)&0xff]^x; }
}
struct rec { uint8_t len; uint8_t code[15]; uint64_t r[16]; uint64_t flags; uint32_t salt; int32_t tgt; uint64_t stk0; uint8_t use_stk0; uint8_t use_poke; uint16_t poke_off; uint32_t pad; uint64_t poke_val; } __attribute__((packed));
static void stub(unsigned char *p, void (*f)(void)){ p[0]=0xff;p[1]=0x25;p[2]=p[3]=p[4]=p[5]=0; uint64_t b=(uint64_t)f; memcpy(p+6,&b,8); }
int main(){
  unsigned char *code=mmap((void*)CODE,8192,PROT_READ|PROT_WRITE|PROT_EXEC,MAP_PRIVATE|MAP_ANONYMOUS|MAP_FIXED_NOREPLACE,-1,0);
  unsigned char *data=mmap((void*)DATA,DSZ,PROT_READ|PROT_WRITE,MAP_PRIVATE|MAP_ANONYMOUS|MAP_FIXED_NOREPLACE,-1,0);
  unsigned char *stk=mmap((void*)SPAGE,SSZ,PROT_READ|PROT_WRITE,MAP_PRIVATE|MAP_ANONYMOUS|MAP_FIXED_NOREPLACE,-1,0);
  if(code!=(void*)CODE||data!=(void*)DATA||stk!=(void*)SPAGE){perror("mmap");return 2;}
  mkB();
  stack_t ss; ss.ss_sp=malloc(65536); ss.ss_size=65536; ss.ss_flags=0; sigaltstack(&ss,0);
  struct sigaction sa; memset(&sa,0,sizeof sa); sa.sa_handler=h; sa.sa_flags=SA_ONSTACK|SA_NODEFER;
  int sigs[]={SIGSEGV,SIGILL,SIGFPE,SIGBUS,SIGTRAP}; for(int i=0;i<5;i++) sigaction(sigs[i],&sa,0);
  struct rec v;
  static unsigned char obuf[8+136+DSZ+SSZ];
  while(fread(&v,sizeof v,1,stdin)==1){
    if(v.len>15) return 3;
    memcpy(&in,v.r,sizeof in.r); in.flags=(v.flags&0xCD5)|0x202;
    memset(code,0xcc,8192); unsigned char *p=code+0x800; memcpy(p,v.code,v.len);
    stub(p+v.len,back_ft);
    if(v.tgt) { if(v.tgt<-0x700||v.tgt>0x700) return 3; stub(p+v.tgt,back_taken); }
    fill(data,0,v.salt); fill(stk,16,v.salt);
    if(v.use_stk0) memcpy((void*)STACK,&v.stk0,8);
    if(v.use_poke){ if(v.poke_off>DSZ-8) return 3; memcpy(data+v.poke_off,&v.poke_val,8); }
    sig=0; taken=0; memset(&out,0,sizeof out);
    if(sigsetjmp(jb,1)==0){ tramp(); }
    uint32_t s=sig,t=taken; memcpy(obuf,&s,4); memcpy(obuf+4,&t,4); memcpy(obuf+8,&out,136); memcpy(obuf+144,data,DSZ); memcpy(obuf+144+DSZ,stk,SSZ);
    fwrite(obuf,sizeof obuf,1,stdout);
  }
  fflush(stdout);
  return 0;
}
