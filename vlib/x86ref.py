"""reference instruction lengths from GNU objdump and llvm-objdump (batch mode):
candidates are laid out in 32-byte slots padded with NOPs so both tools
resynchronise before the next slot."""
import os
import re
import shutil
import subprocess
import tempfile

SLOT = 32
LINE = re.compile(r"^\s*([0-9a-f]+):\s+((?:[0-9a-f]{2}[ \t])+)\s*(.*)$")
TARGET = re.compile(r"\b(?:0x)?([0-9a-f]+)\b")
BRANCH = re.compile(r"^(j[a-z]+|call[a-z]*|loop[a-z]*|jmp[a-z]*|jr?cxz|jecxz|jcxz)\b")


def have_tools():
    return all(shutil.which(t) for t in ("objdump", "llvm-objdump", "llvm-objcopy"))


def layout(cands):
    return b"".join((c + b"\x90" * SLOT)[:SLOT] for c in cands)


def parse(text, n):
    """slot index -> (length, mnemonic text, target or None) | None if invalid"""
    out = {}
    cur = None
    for line in text.splitlines():
        m = LINE.match(line)
        if not m:
            continue
        addr = int(m.group(1), 16)
        nb = len(m.group(2).split())
        rest = m.group(3).strip()
        if rest:
            cur = [addr, nb, rest]
            if addr % SLOT == 0:
                out[addr // SLOT] = cur
        elif cur is not None:
            cur[1] += nb  # continuation line of a long instruction
    res = {}
    for k in range(n):
        c = out.get(k)
        if c is None:
            res[k] = None
            continue
        addr, nb, rest = c
        mn = rest.split()[0] if rest.split() else ""
        if "(bad)" in rest or mn.startswith(".") or "<unknown>" in rest or nb > 15:
            res[k] = None
            continue
        tgt = None
        words = rest.replace(",", " ").split()
        # prefixes printed as separate words (rep, lock, data16, ...) may precede the mnemonic
        for w in words[:3]:
            if BRANCH.match(w):
                t = re.search(r"\s(0x)?([0-9a-f]+)(\s|$|<)", " " + " ".join(words[words.index(w) + 1:]) + " ")
                if t and "*" not in rest and "(" not in rest and "%" not in " ".join(words[words.index(w) + 1:]) and "[" not in rest:
                    tgt = int(t.group(2), 16)
                break
        res[k] = (nb, rest, tgt)
    return res


def run_refs(cands, mode):
    """mode 32|64 -> (gnu dict, llvm dict)"""
    d = tempfile.mkdtemp(prefix="c07_", dir=os.environ.get("VERIF_TMP", None))
    try:
        binp = os.path.join(d, "t.bin")
        with open(binp, "wb") as f:
            f.write(layout(cands))
        a = ["objdump", "-D", "-b", "binary", "-m", "i386"] + (["-M", "x86-64"] if mode == 64 else []) + ["--no-show-raw-insn" if False else "-w", binp]
        g = subprocess.run(a, capture_output=True, text=True).stdout
        o = os.path.join(d, "t.o")
        subprocess.run(["llvm-objcopy", "-I", "binary", "-O", "elf64-x86-64" if mode == 64 else "elf32-i386", "--rename-section", ".data=.text,code", binp, o], capture_output=True)
        l = subprocess.run(["llvm-objdump", "-d", "--no-leading-addr" if False else "--x86-asm-syntax=att", o], capture_output=True, text=True).stdout
        return parse(g, len(cands)), parse(l, len(cands))
    finally:
        shutil.rmtree(d, ignore_errors=True)


def eligible_rows(cands, mode):
    """rows (hex, length, disp|None) on which both references agree"""
    g, l = run_refs(cands, mode)
    rows = []
    stats = dict(both_valid_same=0, disagree=0, invalid=0)
    for k, c in enumerate(cands):
        a, b = g.get(k), l.get(k)
        if a is None or b is None:
            stats["invalid"] += 1
            continue
        if a[0] != b[0] or a[0] > len(c):
            stats["disagree"] += 1
            continue
        disp = None
        if a[2] is not None and b[2] is not None:
            da = a[2] - (k * SLOT + a[0])
            db = b[2] - (k * SLOT + b[0])
            if da == db:
                disp = da
            else:
                stats["disagree"] += 1
                continue
        stats["both_valid_same"] += 1
        rows.append((c.hex(), a[0], disp))
    return rows, stats
